/-
  C03 — deserialization is well typed.

  `unpack_conf`: whatever the deserializer returns, for ANY input, conforms to the annotation
  with the canonical concrete classes (`conf S r = true`) — by structural induction over the
  whole type grammar, unions included, for mixin and codec entry points and every reference
  switch (`cx` arbitrary).  The builtin constructors and leaf parsers are only assumed to
  return objects of their own class (`TypeLaws`).
-/
import Mashu.Lemmas.Inv
import Mashu.Generated
namespace Mashu

/-- Bool-valued comparison of an outcome with an expected value (`none` = any error) -/
def okIs' (r : R V) (v : Option V) : Bool :=
  match r, v with
  | .ok x, some y => x == y
  | .error _, none => true
  | _, _ => false

/-- the uninterpreted Python side returns objects of the class it constructs -/
structure TypeLaws (O : Oracle) : Prop where
  int_ty : ∀ v r, O.call .int v = .ok r → ∃ i, r = .int i
  float_ty : ∀ v r, O.call .float v = .ok r → ∃ t, r = .float t
  str_ty : ∀ v r, O.call .str v = .ok r → ∃ s, r = .str s
  bool_ty : ∀ v r, O.call .bool v = .ok r → ∃ b, r = .bool b
  parse_ty : ∀ k v r, O.call (.parse k) v = .ok r → ∃ c, r = .leaf k c

/- well-formed schemas: defaults conform to their own annotation, TypedDict keys distinct -/
mutual
def WF : Ty → Prop
  | .any | .none | .bool | .int | .float | .str | .leaf _ | .enum _ _ | .lit _ => True
  | .opt t => WF t
  | .union ts => WFL ts
  | .coll _ t => WF t
  | .map _ k t => WF k ∧ WF t
  | .chain k t => WF k ∧ WF t
  | .tvar t => WF t
  | .tfix ts => WFL ts
  | .tunp pre mid post => WFL pre ∧ WF mid ∧ WFL post
  | .nt _ fs defs _ => WFN fs ∧ defs.length ≤ fs.length ∧ confN (fs.drop (fs.length - defs.length)) defs = true
  | .td _ req opt => WFN req ∧ WFN opt ∧ ((req ++ opt).map (·.1)).Nodup
  | .dc _ _ fs => WFF fs
def WFL : List Ty → Prop
  | [] => True
  | t :: ts => WF t ∧ WFL ts
def WFN : List (String × Ty) → Prop
  | [] => True
  | (_, t) :: fs => WF t ∧ WFN fs
def WFF : List (FieldDef × Ty) → Prop
  | [] => True
  | (f, t) :: fs => WF t ∧ (∀ dv, f.default = some dv → (conf t dv || (isNone dv && f.defaultIsNone)) = true) ∧ WFF fs
end

theorem run_ok_inv {O : Oracle} {op : Op} {v r : V} (h : O.run op v = .ok r) : O.call op v = .ok r := by
  simp only [Oracle.run] at h
  split at h
  · rename_i r' heq; cases h; exact heq
  · cases h

theorem lookup_isSome_of_mem (ms : List (String × V)) (nm : String × V) (h : nm ∈ ms) :
    (ms.lookup nm.1).isSome = true := by
  induction ms with
  | nil => simp at h
  | cons p ms ih =>
    obtain ⟨a, b⟩ := p
    simp only [List.lookup]
    by_cases he : (nm.1 == a) = true
    · simp [he]
    · have he' : (nm.1 == a) = false := by simpa using he
      simp only [he']
      cases h with
      | head => simp at he
      | tail _ h' => exact ih h'

theorem unpackLit_mem (O : Oracle) : ∀ (vals : List (V × V)) (v c : V), unpackLit O vals v = some c →
    ∃ cw ∈ vals, cw.1 = c
  | [], _, _, h => by simp [unpackLit] at h
  | cw :: cs, v, c, h => by
      rw [unpackLit] at h
      have recur : unpackLit O cs v = some c → ∃ cw' ∈ cw :: cs, cw'.1 = c := by
        intro h'
        obtain ⟨cw', hm, he⟩ := unpackLit_mem O cs v c h'
        exact ⟨cw', by simp [hm], he⟩
      split at h
      · split at h
        · split at h
          · cases h; exact ⟨cw, by simp, rfl⟩
          · exact recur h
        · exact recur h
      · split at h
        · cases h; exact ⟨cw, by simp, rfl⟩
        · exact recur h
      · split at h
        · cases h; exact ⟨cw, by simp, rfl⟩
        · exact recur h

theorem classOf_cases (v : V) (c : PyCls) (h : (c == classOf v) = true) (hc : c = .none ∨ c = .bool ∨ c = .int ∨ c = .float ∨ c = .str) :
    (c = .none ∧ v = .none) ∨ (c = .bool ∧ ∃ b, v = .bool b) ∨ (c = .int ∧ ∃ i, v = .int i)
      ∨ (c = .float ∧ ∃ t, v = .float t) ∨ (c = .str ∧ ∃ s, v = .str s) := by
  have h' : c = classOf v := by simpa using h
  cases v with
  | coll o vs => cases o <;> simp [classOf] at h' <;> subst h' <;> simp at hc
  | map o kvs => cases o <;> simp [classOf] at h' <;> subst h' <;> simp at hc
  | none => simp [classOf] at h'; simp [h']
  | bool b => simp [classOf] at h'; simp [h']
  | int i => simp [classOf] at h'; simp [h']
  | float t => simp [classOf] at h'; simp [h']
  | str s => simp [classOf] at h'; simp [h']
  | leaf k c' => simp [classOf] at h'; subst h'; simp at hc
  | enum _ _ => simp [classOf] at h'; subst h'; simp at hc
  | ntuple _ _ => simp [classOf] at h'; subst h'; simp at hc
  | inst _ _ => simp [classOf] at h'; subst h'; simp at hc
  | tagged _ _ => simp [classOf] at h'; subst h'; simp at hc

theorem scalar_conf_self (t : Ty) (v : V) (hs : t.isScalar = true) (hc : (t.scalarCls == classOf v) = true) :
    conf t v = true := by
  have hcls : t.scalarCls = .none ∨ t.scalarCls = .bool ∨ t.scalarCls = .int ∨ t.scalarCls = .float ∨ t.scalarCls = .str := by
    cases t <;> simp [Ty.isScalar] at hs <;> simp [Ty.scalarCls]
  rcases classOf_cases v t.scalarCls hc hcls with ⟨h1, rfl⟩ | ⟨h1, b, rfl⟩ | ⟨h1, b, rfl⟩ | ⟨h1, b, rfl⟩ | ⟨h1, b, rfl⟩ <;>
    cases t <;> simp [Ty.isScalar] at hs <;> simp [Ty.scalarCls] at h1 <;> simp [conf, isNone]

theorem ident_conf_any : ∀ (t : Ty) (v : V), t.unpackIdent = true → conf t v = true
  | .any, v, _ => by simp [conf]
  | .opt t, v, h => by
      simp only [Ty.unpackIdent] at h
      rw [conf]; simp [ident_conf_any t v h]
  | .none, _, h => by simp [Ty.unpackIdent] at h
  | .bool, _, h => by simp [Ty.unpackIdent] at h
  | .int, _, h => by simp [Ty.unpackIdent] at h
  | .float, _, h => by simp [Ty.unpackIdent] at h
  | .str, _, h => by simp [Ty.unpackIdent] at h
  | .leaf _, _, h => by simp [Ty.unpackIdent] at h
  | .enum _ _, _, h => by simp [Ty.unpackIdent] at h
  | .lit _, _, h => by simp [Ty.unpackIdent] at h
  | .union _, _, h => by simp [Ty.unpackIdent] at h
  | .coll _ _, _, h => by simp [Ty.unpackIdent] at h
  | .map _ _ _, _, h => by simp [Ty.unpackIdent] at h
  | .chain _ _, _, h => by simp [Ty.unpackIdent] at h
  | .tvar _, _, h => by simp [Ty.unpackIdent] at h
  | .tfix _, _, h => by simp [Ty.unpackIdent] at h
  | .tunp _ _ _, _, h => by simp [Ty.unpackIdent] at h
  | .nt _ _ _ _, _, h => by simp [Ty.unpackIdent] at h
  | .td _ _ _, _, h => by simp [Ty.unpackIdent] at h
  | .dc _ _ _, _, h => by simp [Ty.unpackIdent] at h


theorem all_of_mem {α} {p : α → Bool} {xs : List α} (h : ∀ x ∈ xs, p x = true) : xs.all p = true := by
  simp only [List.all_eq_true]; exact h

theorem kvMH_inv (fk fv : V → R V) (kv r : V × V) (h : kvMH fk fv kv = .ok r) :
    fk kv.1 = .ok r.1 ∧ fv kv.2 = .ok r.2 := by
  simp only [kvMH] at h
  obtain ⟨a, ha, h⟩ := bind_ok_inv h
  obtain ⟨b, hb, h⟩ := bind_ok_inv h
  split at h
  · simp [pure, Except.pure] at h; subst h; exact ⟨ha, hb⟩
  · simp [raisePy] at h

theorem itemsM_inv (f : V × V → R (V × V)) (m r : V) (h : itemsM f m = .ok r) :
    ∃ kvs rs, pyItems m = .ok kvs ∧ kvs.mapM f = .ok rs ∧ r = .map .dict rs := by
  simp only [itemsM] at h
  obtain ⟨kvs, hk, h⟩ := bind_ok_inv h
  obtain ⟨rs, hr, h⟩ := bind_ok_inv h
  simp [pure, Except.pure] at h
  exact ⟨kvs, rs, hk, hr, h.symm⟩

theorem finishColl_inv (o : CollO) (rs : List V) (r : V) (h : finishColl o rs = .ok r) :
    r = .coll o rs ∧ (o = .list ∨ o = .set ∨ o = .frozenset ∨ o = .deque) := by
  cases o <;> simp only [finishColl] at h
  · cases h; simp
  · split at h
    · cases h; simp
    · simp [raisePy] at h
  · split at h
    · cases h; simp
    · simp [raisePy] at h
  · cases h; simp
  · simp [raisePy] at h
  · simp [raisePy] at h

theorem isNone_true' {v : V} (h : isNone v = true) : v = .none := by
  cases v <;> simp_all [isNone]

theorem unpack_opt_ne' (O : Oracle) (cx : Cx) (fx : Fx) (t : Ty) (v : V) (h : isNone v = false) :
    unpack O cx fx (.opt t) v = unpack O cx fx t v := by
  cases v with
  | none => simp [isNone] at h
  | _ => rw [unpack]; intro h'; cases h'

theorem confAny_of_mem : ∀ (ts : List Ty) (t : Ty) (r : V), t ∈ ts → conf t r = true → confAny ts r = true
  | [], _, _, h, _ => by simp at h
  | t' :: ts, t, r, h, hc => by
      rw [confAny]
      cases h with
      | head => simp [hc]
      | tail _ h' => simp [confAny_of_mem ts t r h' hc]

theorem firstOk_inv {α β} (f : α → R β) : ∀ (xs : List α) (b : β), firstOk f xs = some b → ∃ a ∈ xs, f a = .ok b
  | [], _, h => by simp [firstOk] at h
  | a :: xs, b, h => by
      simp only [firstOk] at h
      split at h
      · rename_i b' hb; cases h; exact ⟨a, by simp, hb⟩
      · obtain ⟨a', hm, hb⟩ := firstOk_inv f xs b h
        exact ⟨a', by simp [hm], hb⟩


theorem confL_length : ∀ (ts : List Ty) (vs : List V), confL ts vs = true → ts.length = vs.length
  | [], [], _ => rfl
  | [], _ :: _, h => by simp [confL] at h
  | _ :: _, [], h => by simp [confL] at h
  | t :: ts, v :: vs, h => by
      rw [confL] at h
      simp only [Bool.and_eq_true] at h
      simp [confL_length ts vs h.2]

theorem confN_length : ∀ (fs : List (String × Ty)) (vs : List V), confN fs vs = true → fs.length = vs.length
  | [], [], _ => rfl
  | [], _ :: _, h => by simp [confN] at h
  | _ :: _, [], h => by simp [confN] at h
  | (_, t) :: fs, v :: vs, h => by
      rw [confN] at h
      simp only [Bool.and_eq_true] at h
      simp [confN_length fs vs h.2]

theorem confN_append : ∀ (xs ys : List (String × Ty)) (as bs : List V), confN xs as = true → confN ys bs = true →
    confN (xs ++ ys) (as ++ bs) = true
  | [], ys, [], bs, _, h => by simpa using h
  | [], _, _ :: _, _, h, _ => by simp [confN] at h
  | _ :: _, _, [], _, h, _ => by simp [confN] at h
  | (n, t) :: xs, ys, a :: as, bs, h1, h2 => by
      rw [confN] at h1
      simp only [Bool.and_eq_true] at h1
      simp only [List.cons_append]
      rw [confN]
      simp [h1.1, confN_append xs ys as bs h1.2 h2]

theorem confN_drop : ∀ (j : Nat) (xs : List (String × Ty)) (ys : List V), confN xs ys = true →
    confN (xs.drop j) (ys.drop j) = true
  | 0, xs, ys, h => by simpa using h
  | j + 1, [], [], _ => by simp [confN]
  | j + 1, [], _ :: _, h => by simp [confN] at h
  | j + 1, _ :: _, [], h => by simp [confN] at h
  | j + 1, (n, t) :: xs, y :: ys, h => by
      rw [confN] at h
      simp only [Bool.and_eq_true] at h
      simpa using confN_drop j xs ys h.2


theorem lookup_isSome_of_mem' {α} (ms : List (String × α)) (nm : String × α) (h : nm ∈ ms) :
    (ms.lookup nm.1).isSome = true := by
  induction ms with
  | nil => simp at h
  | cons p ms ih =>
    obtain ⟨a, b⟩ := p
    simp only [List.lookup]
    by_cases he : (nm.1 == a) = true
    · simp [he]
    · have he' : (nm.1 == a) = false := by simpa using he
      simp only [he']
      cases h with
      | head => simp at he
      | tail _ h' => exact ih h'

theorem str_beq (m n : String) : ((V.str m) == (V.str n)) = (m == n) := by
  show V.beq (V.str m) (V.str n) = (m == n)
  simp [V.beq]

/-- every entry of a decoded TypedDict is a declared key with a conforming value -/
def TdGood (fs : List (String × Ty)) (kvs : List (V × V)) : Prop :=
  ∀ kv ∈ kvs, ∃ n t, kv.1 = .str n ∧ (n, t) ∈ fs ∧ conf t kv.2 = true

theorem nodup_unique : ∀ (fs : List (String × Ty)) (n : String) (t t' : Ty), (fs.map (·.1)).Nodup →
    (n, t) ∈ fs → (n, t') ∈ fs → t = t'
  | [], _, _, _, _, h, _ => by simp at h
  | (m, u) :: fs, n, t, t', hn, h1, h2 => by
      simp only [List.map_cons, List.nodup_cons] at hn
      cases h1 with
      | head =>
        cases h2 with
        | head => rfl
        | tail _ h2' => exact absurd (List.mem_map_of_mem (f := fun x : String × Ty => x.1) h2') hn.1
      | tail _ h1' =>
        cases h2 with
        | head => exact absurd (List.mem_map_of_mem (f := fun x : String × Ty => x.1) h1') hn.1
        | tail _ h2' => exact nodup_unique fs n t t' hn.2 h1' h2'

theorem find_good (fs : List (String × Ty)) (kvs : List (V × V)) (hg : TdGood fs kvs)
    (hn : (fs.map (·.1)).Nodup) (n : String) (t : Ty) (hm : (n, t) ∈ fs) (kv : V × V)
    (hf : kvs.find? (fun kv => kv.1 == V.str n) = some kv) : conf t kv.2 = true := by
  have hmem := List.mem_of_find?_eq_some hf
  have hp := List.find?_some hf
  obtain ⟨m, t', hk, hm', hc⟩ := hg kv hmem
  rw [hk, str_beq] at hp
  have : m = n := by simpa using hp
  subst this
  rw [nodup_unique fs m t t' hn hm hm']
  exact hc

theorem td_conf (req opt : List (String × Ty)) (a b : List (V × V))
    (hn : ((req ++ opt).map (·.1)).Nodup)
    (ha : TdGood req a) (hall : ∀ nt ∈ req, ∃ kv ∈ a, kv.1 = V.str nt.1) (hb : TdGood opt b) :
    (confReq req (a ++ b) && (a ++ b).all (fun kv => match kv.1 with
        | .str n => (match (req ++ opt).lookup n with | some _ => true | none => false)
        | _ => false) && confOptKeys opt (a ++ b)) = true := by
  have hg : TdGood (req ++ opt) (a ++ b) := by
    intro kv hkv
    rcases List.mem_append.mp hkv with h | h
    · obtain ⟨n, t, h1, h2, h3⟩ := ha kv h
      exact ⟨n, t, h1, List.mem_append_left _ h2, h3⟩
    · obtain ⟨n, t, h1, h2, h3⟩ := hb kv h
      exact ⟨n, t, h1, List.mem_append_right _ h2, h3⟩
  have h1 : ∀ (fs : List (String × Ty)), (∀ nt ∈ fs, nt ∈ req) → confReq fs (a ++ b) = true := by
    intro fs
    induction fs with
    | nil => intro _; simp [confReq]
    | cons p fs ih =>
      intro hsub
      obtain ⟨n, t⟩ := p
      rw [confReq]
      have hmem : (n, t) ∈ req := hsub (n, t) (by simp)
      obtain ⟨kv0, hkv0, hk0⟩ := hall (n, t) hmem
      cases hf : (a ++ b).find? (fun kv => kv.1 == V.str n) with
      | none =>
        rw [List.find?_eq_none] at hf
        have := hf kv0 (List.mem_append_left _ hkv0)
        simp [hk0, str_beq] at this
      | some kv =>
        simp only [Bool.and_eq_true]
        exact ⟨find_good (req ++ opt) (a ++ b) hg hn n t (List.mem_append_left _ hmem) kv hf,
          ih (fun nt h => hsub nt (by simp [h]))⟩
  have h3 : ∀ (fs : List (String × Ty)), (∀ nt ∈ fs, nt ∈ opt) → confOptKeys fs (a ++ b) = true := by
    intro fs
    induction fs with
    | nil => intro _; simp [confOptKeys]
    | cons p fs ih =>
      intro hsub
      obtain ⟨n, t⟩ := p
      rw [confOptKeys]
      have hmem : (n, t) ∈ opt := hsub (n, t) (by simp)
      cases hf : (a ++ b).find? (fun kv => kv.1 == V.str n) with
      | none => simp [ih (fun nt h => hsub nt (by simp [h]))]
      | some kv =>
        simp only [Bool.and_eq_true]
        exact ⟨find_good (req ++ opt) (a ++ b) hg hn n t (List.mem_append_right _ hmem) kv hf,
          ih (fun nt h => hsub nt (by simp [h]))⟩
  have h2 : (a ++ b).all (fun kv => match kv.1 with
        | .str n => (match (req ++ opt).lookup n with | some _ => true | none => false)
        | _ => false) = true := by
    apply all_of_mem
    intro kv hkv
    obtain ⟨n, t, hk, hm, _⟩ := hg kv hkv
    rw [hk]
    simp only []
    have : ((req ++ opt).lookup n).isSome = true := by
      have := lookup_isSome_of_mem' (req ++ opt) (n, t) hm
      simpa using this
    cases hl : (req ++ opt).lookup n with
    | none => simp [hl] at this
    | some _ => rfl
  simp [h1 req (fun _ h => h), h2, h3 opt (fun _ h => h)]

theorem fromDict_inv (cls : String) (cfg : Cfg) (fs : List (FieldDef × Ty)) (d : V)
    (fieldsF : List (V × V) → R (List (String × V))) (r : V) (h : fromDict cls cfg fs d fieldsF = .ok r) :
    (∃ vals, defaultsOnly fs = some vals ∧ r = .inst cls vals)
      ∨ (∃ o kvs vals, d = .map o kvs ∧ fieldsF kvs = .ok vals ∧ r = .inst cls vals) := by
  unfold fromDict at h
  simp only [] at h
  split at h
  · rename_i o kvs
    split at h
    · cases h
    · obtain ⟨vals, hv, h⟩ := bind_ok_inv h
      simp [pure, Except.pure, buildInst] at h
      exact Or.inr ⟨o, kvs, vals, rfl, hv, h.symm⟩
  · cases h

theorem isNone_eq {v : V} (h : isNone v = true) : v = .none := by
  cases v <;> simp [isNone] at h <;> rfl

mutual
theorem nullable_conf_none : ∀ (t : Ty), t.nullableAnn = true → conf t .none = true
  | .union ts, h => by
      simp only [Ty.nullableAnn] at h
      simp only [conf]
      exact nullableL_confAny ts h
  | .lit vals, h => by
      simp only [Ty.nullableAnn, List.any_eq_true] at h
      obtain ⟨cw, hm, hn⟩ := h
      simp only [conf, List.any_eq_true]
      exact ⟨cw, hm, by rw [isNone_eq hn]; simp [BEq.beq, V.beq]⟩
  | .any, _ => by simp [conf]
  | .none, _ => by simp [conf, isNone]
  | .opt _, _ => by simp [conf, isNone]
  | .bool, h | .int, h | .float, h | .str, h | .leaf _, h | .enum _ _, h | .coll _ _, h | .map _ _ _, h
  | .chain _ _, h | .tvar _, h | .tfix _, h | .tunp _ _ _, h | .nt _ _ _ _, h | .td _ _ _, h | .dc _ _ _, h => by
      simp [Ty.nullableAnn] at h
theorem nullableL_confAny : ∀ (ts : List Ty), Ty.nullableAnnL ts = true → confAny ts .none = true
  | [], h => by simp [Ty.nullableAnnL] at h
  | t :: ts, h => by
      simp only [Ty.nullableAnnL, Bool.or_eq_true] at h
      simp only [confAny, Bool.or_eq_true]
      rcases h with h | h
      · exact Or.inl (nullable_conf_none t h)
      · exact Or.inr (nullableL_confAny ts h)
end

theorem defaultsOnly_conf : ∀ (fs : List (FieldDef × Ty)) (vals : List (String × V)), WFF fs →
    defaultsOnly fs = some vals → confF fs vals = true
  | [], vals, _, h => by simp [defaultsOnly] at h; subst h; simp [confF]
  | (f, t) :: fs, vals, hw, h => by
      simp only [WFF] at hw
      rw [defaultsOnly] at h
      cases hd : f.default with
      | none => simp [hd] at h
      | some dv =>
        cases hr : defaultsOnly fs with
        | none => simp [hd, hr] at h
        | some rest =>
          simp [hd, hr] at h; subst h
          rw [confF]
          simp [hw.2.1 dv hd, defaultsOnly_conf fs rest hw.2.2 hr]

section
variable (O : Oracle) (hT : TypeLaws O)
include hT
set_option linter.unusedVariables false

theorem unpackScalar_conf (t : Ty) (v r : V) (hs : t.isScalar = true) (h : unpackScalar O t v = .ok r) :
    conf t r = true := by
  cases t <;> simp [Ty.isScalar] at hs
  · simp [unpackScalar] at h; subst h; simp [conf, isNone]
  · obtain ⟨b, rfl⟩ := hT.bool_ty v r (run_ok_inv (by simpa [unpackScalar] using h)); simp [conf]
  · obtain ⟨b, rfl⟩ := hT.int_ty v r (run_ok_inv (by simpa [unpackScalar] using h)); simp [conf]
  · obtain ⟨b, rfl⟩ := hT.float_ty v r (run_ok_inv (by simpa [unpackScalar] using h)); simp [conf]
  · obtain ⟨b, rfl⟩ := hT.str_ty v r (run_ok_inv (by simpa [unpackScalar] using h)); simp [conf]

mutual
theorem uc : ∀ (S : Ty) (cx : Cx) (fx : Fx) (d r : V), WF S → unpack O cx fx S d = .ok r → conf S r = true
  | .any, cx, fx, d, r, _, h => by simp [conf]
  | .none, cx, fx, d, r, _, h => by rw [unpack] at h; cases h; simp [conf, isNone]
  | .bool, cx, fx, d, r, _, h => by
      rw [unpack] at h; obtain ⟨b, rfl⟩ := hT.bool_ty d r (run_ok_inv h); simp [conf]
  | .int, cx, fx, d, r, _, h => by
      rw [unpack] at h; obtain ⟨b, rfl⟩ := hT.int_ty d r (run_ok_inv h); simp [conf]
  | .float, cx, fx, d, r, _, h => by
      rw [unpack] at h; obtain ⟨b, rfl⟩ := hT.float_ty d r (run_ok_inv h); simp [conf]
  | .str, cx, fx, d, r, _, h => by
      rw [unpack] at h; obtain ⟨b, rfl⟩ := hT.str_ty d r (run_ok_inv h); simp [conf]
  | .leaf k, cx, fx, d, r, _, h => by
      rw [unpack] at h; obtain ⟨c, rfl⟩ := hT.parse_ty k d r (run_ok_inv h)
      cases k <;> simp [conf]
  | .enum cls ms, cx, fx, d, r, _, h => by
      rw [unpack] at h
      simp only [unpackEnum] at h
      split at h
      · next c m =>
        split at h
        · next hcond =>
          cases h
          simp only [Bool.and_eq_true, beq_iff_eq, List.any_eq_true] at hcond
          obtain ⟨rfl, nm, hnm, hname⟩ := hcond
          have := lookup_isSome_of_mem ms nm hnm
          rw [conf]; simp [← hname, this]
        · simp [raisePy] at h
      · cases hfind : ms.find? (fun nm => O.eq d nm.2) with
        | none => simp [hfind, raisePy] at h
        | some nm =>
          simp only [hfind] at h
          cases h
          have hm := List.mem_of_find?_eq_some hfind
          rw [conf]; simp [lookup_isSome_of_mem ms nm hm]
  | .lit vals, cx, fx, d, r, _, h => by
      rw [unpack] at h
      cases hu : unpackLit O vals d with
      | none => simp [hu, raisePy] at h
      | some c =>
        simp only [hu] at h
        have h' : c = r := by simpa using h
        subst h'
        obtain ⟨cw, hm, he⟩ := unpackLit_mem O vals d c hu
        rw [conf]
        simp only [List.any_eq_true]
        exact ⟨cw, hm, by rw [he]; exact V.eq_refl c⟩
  | .opt t, cx, fx, d, r, hw, h => by
      simp only [WF] at hw
      by_cases hn : isNone d = true
      · have := isNone_true' hn; subst this
        rw [unpack] at h; cases h
        rw [conf]; simp [isNone]
      · have hn' : isNone d = false := by simpa using hn
        rw [unpack_opt_ne' O cx fx t d hn'] at h
        rw [conf]; simp [uc t cx fx d r hw h]
  | .union ts, cx, fx, d, r, hw, h => by
      simp only [WF] at hw
      rw [unpack] at h
      rw [conf]
      by_cases hcond : ((cx.fixK2 || isNone d) && ts.any (fun t => t.isScalar && t.scalarCls == classOf d)) = true
      · simp only [hcond, if_true] at h
        cases h
        simp only [Bool.and_eq_true, List.any_eq_true] at hcond
        obtain ⟨_, t, ht, hs, hc⟩ := hcond
        exact confAny_of_mem ts t d ht (scalar_conf_self t d hs hc)
      · rw [if_neg hcond] at h
        cases hwalk : unionWalk O cx fx ts d with
        | some r' =>
          rw [hwalk] at h
          have h' : r' = r := by simpa using h
          subst h'
          exact ucWalk ts cx fx d r' hw hwalk
        | none =>
          rw [hwalk] at h
          cases hfirst : firstOk (fun t => unpackScalar O t d)
              (ts.filter (fun t => t.isScalar && !(cx.fixK1 && t.scalarCls == .none))) with
          | none => rw [hfirst] at h; cases h
          | some r' =>
            rw [hfirst] at h
            have h' : r' = r := by simpa using h
            subst h'
            obtain ⟨t, ht, hr⟩ := firstOk_inv (fun t => unpackScalar O t d) _ r' hfirst
            have ht' := List.mem_filter.mp ht
            have hs : t.isScalar = true := by
              have := ht'.2; simp only [Bool.and_eq_true] at this; exact this.1
            exact confAny_of_mem ts t r' ht'.1 (unpackScalar_conf O hT t d r' hs hr)
  | .coll o t, cx, fx, d, r, hw, h => by
      simp only [WF] at hw
      rw [unpack] at h
      obtain ⟨xs, hx, h⟩ := bind_ok_inv h
      obtain ⟨rs, hr, h⟩ := bind_ok_inv h
      have hall : ∀ b ∈ rs, conf t b = true :=
        mapM_ok_inv (unpack O cx fx t) (fun b => conf t b = true) xs rs hr (fun x _ b hb => uc t cx fx x b hw hb)
      obtain ⟨rfl, _⟩ := finishColl_inv o rs r h
      rw [conf]; simp [all_of_mem hall]
  | .map o k t, cx, fx, d, r, hw, h => by
      simp only [WF] at hw
      rw [unpack] at h
      obtain ⟨kvs, hk, h⟩ := bind_ok_inv h
      obtain ⟨rs, hr, h⟩ := bind_ok_inv h
      simp [pure, Except.pure] at h; subst h
      have hall : ∀ b ∈ rs, (conf k b.1 && (if o == .counter then isIntV b.2 else conf t b.2)) = true :=
        mapM_ok_inv _ (fun b : V × V => (conf k b.1 && (if o == .counter then isIntV b.2 else conf t b.2)) = true) kvs rs hr
          (fun kv _ b hb => by
            obtain ⟨h1, h2⟩ := kvMH_inv _ _ kv b hb
            have c1 := uc k cx fx kv.1 b.1 hw.1 h1
            by_cases hc : (o == .counter) = true
            · simp only [hc, if_true] at h2 ⊢
              obtain ⟨i, hi⟩ := hT.int_ty _ _ (run_ok_inv h2)
              simp [c1, hi, isIntV]
            · simp only [hc] at h2 ⊢
              simp [c1, uc t cx fx kv.2 b.2 hw.2 h2])
      rw [conf]
      have h1 : (o == o) = true := by cases o <;> rfl
      rw [h1, Bool.true_and]
      exact all_of_mem hall
  | .chain k t, cx, fx, d, r, hw, h => by
      simp only [WF] at hw
      rw [unpack] at h
      obtain ⟨ms, hm, h⟩ := bind_ok_inv h
      obtain ⟨rs, hr, h⟩ := bind_ok_inv h
      simp [pure, Except.pure] at h; subst h
      rw [conf]
      apply all_of_mem
      intro m' hm'
      have := mapM_ok_inv _ (fun m' : V => ∃ rs', m' = .map .dict rs' ∧ ∀ b ∈ rs', (conf k b.1 && conf t b.2) = true) ms rs hr
        (fun m _ b hb => by
          obtain ⟨kvs, rs', _, hmap, rfl⟩ := itemsM_inv _ m b hb
          refine ⟨rs', rfl, ?_⟩
          exact mapM_ok_inv _ (fun b : V × V => (conf k b.1 && conf t b.2) = true) kvs rs' hmap
            (fun kv _ b hb => by
              obtain ⟨h1, h2⟩ := kvMH_inv _ _ kv b hb
              simp [uc k cx fx kv.1 b.1 hw.1 h1, uc t cx fx kv.2 b.2 hw.2 h2]))
      obtain ⟨rs', rfl, hall⟩ := this m' hm'
      simp [all_of_mem hall]
  | .tvar t, cx, fx, d, r, hw, h => by
      simp only [WF] at hw
      rw [unpack] at h
      obtain ⟨xs, hx, h⟩ := bind_ok_inv h
      obtain ⟨rs, hr, h⟩ := bind_ok_inv h
      simp [pure, Except.pure] at h; subst h
      have hall : ∀ b ∈ rs, conf t b = true :=
        mapM_ok_inv (unpack O cx fx t) (fun b => conf t b = true) xs rs hr (fun x _ b hb => uc t cx fx x b hw hb)
      rw [conf]; exact all_of_mem hall
  | .tfix ts, cx, fx, d, r, hw, h => by
      simp only [WF] at hw
      rw [unpack] at h
      obtain ⟨rs, hr, h⟩ := bind_ok_inv h
      simp [pure, Except.pure] at h; subst h
      rw [conf]; exact ucIdx ts cx fx d 0 rs hw hr
  | .tunp pre mid post, cx, fx, d, r, hw, h => by
      simp only [WF] at hw
      obtain ⟨hwp, hwm, hwq⟩ := hw
      rw [unpack] at h
      obtain ⟨a, ha, h⟩ := bind_ok_inv h
      obtain ⟨sl, hsl, h⟩ := bind_ok_inv h
      obtain ⟨b, hb, h⟩ := bind_ok_inv h
      obtain ⟨c, hc, h⟩ := bind_ok_inv h
      simp [pure, Except.pure] at h; subst h
      have ca := ucIdx pre cx fx d 0 a hwp ha
      have cc := ucIdx post cx fx d _ c hwq hc
      have cb : ∀ x ∈ b, conf mid x = true :=
        mapM_ok_inv (unpack O cx fx mid) (fun x => conf mid x = true) sl b hb (fun x _ y hy => uc mid cx fx x y hwm hy)
      have la := confL_length pre a ca
      have lc := confL_length post c cc
      rw [conf]
      have e1 : (a ++ (b ++ c)).take pre.length = a := List.take_left' la.symm
      have e2 : ((a ++ (b ++ c)).drop pre.length).take ((a ++ (b ++ c)).length - pre.length - post.length) = b := by
        rw [List.drop_left' la.symm]
        apply List.take_left'
        simp only [List.length_append]; omega
      have e3 : (a ++ (b ++ c)).drop ((a ++ (b ++ c)).length - post.length) = c := by
        rw [← List.append_assoc]
        apply List.drop_left'
        simp only [List.length_append]; omega
      have e0 : pre.length + post.length ≤ (a ++ (b ++ c)).length := by
        simp only [List.length_append]; omega
      rw [e1, e2, e3]
      have e0' : decide (pre.length + post.length ≤ (a ++ (b ++ c)).length) = true := by simpa using e0
      rw [e0', ca, cc, all_of_mem cb]; rfl
  | .nt cls fs defs asD, cx, fx, d, r, hw, h => by
      simp only [WF] at hw
      obtain ⟨hwn, hlen, hdef⟩ := hw
      rw [unpack] at h
      by_cases hde : defs.isEmpty = true
      · rw [if_pos hde] at h
        obtain ⟨rs, hr, h⟩ := bind_ok_inv h
        simp [pure, Except.pure] at h; subst h
        rw [conf]; simp [ucNT fs cx fx d 0 (asD.getD cx.ntAsDict) rs hwn hr]
      · rw [if_neg hde] at h
        by_cases hasd : asD.getD cx.ntAsDict = true
        · rw [if_pos hasd] at h
          obtain ⟨rs, hr, h⟩ := bind_ok_inv h
          by_cases hall : rs.all Option.isSome = true
          · rw [if_pos hall] at h
            simp [pure, Except.pure] at h; subst h
            obtain ⟨_, hc⟩ := ucNTk fs cx fx d (fs.length - defs.length) defs rs hwn (by omega) hdef hr
            rw [conf]; simp [hc hall]
          · rw [if_neg hall] at h; simp [raisePy] at h
        rw [if_neg hasd] at h
        obtain ⟨rs, hr, h⟩ := bind_ok_inv h
        by_cases hshort : rs.length + defs.length < fs.length
        · rw [if_pos hshort] at h; simp [raisePy] at h
        · rw [if_neg hshort] at h
          simp [pure, Except.pure] at h; subst h
          obtain ⟨hle, hpre⟩ := ucNTd fs cx fx d 0 (asD.getD cx.ntAsDict) rs hwn hr
          rw [conf]
          have hsplit : fs = fs.take rs.length ++ fs.drop rs.length := (List.take_append_drop _ _).symm
          have hd2 := confN_drop (rs.length + defs.length - fs.length) _ _ hdef
          rw [List.drop_drop] at hd2
          have harith : fs.length - defs.length + (rs.length + defs.length - fs.length) = rs.length := by omega
          rw [harith] at hd2
          have := confN_append _ _ _ _ hpre hd2
          rw [← hsplit] at this
          simp [this]
  | .td cls req opt, cx, fx, d, r, hw, h => by
      simp only [WF] at hw
      obtain ⟨hwr, hwo, hnd⟩ := hw
      rw [unpack] at h
      obtain ⟨a, ha, h⟩ := bind_ok_inv h
      obtain ⟨b, hb, h⟩ := bind_ok_inv h
      simp [pure, Except.pure] at h; subst h
      obtain ⟨hga, hall⟩ := ucReq req cx fx d a hwr ha
      have hgb := ucOpt opt cx fx d b hwo hb
      rw [conf]
      exact td_conf req opt a b hnd hga hall hgb
  | .dc cls cfg fs, cx, fx, d, r, hw, h => by
      simp only [WF] at hw
      rw [unpack] at h
      rcases fromDict_inv cls cfg fs d _ r h with ⟨vals, hd, rfl⟩ | ⟨o, kvs, vals, rfl, hv, rfl⟩
      · rw [conf]; simp [defaultsOnly_conf fs vals hw hd]
      · rw [conf]; simp [ucFields fs _ cls cfg kvs vals hw hv]

theorem ucWalk : ∀ (ts : List Ty) (cx : Cx) (fx : Fx) (v r : V), WFL ts → unionWalk O cx fx ts v = some r →
    confAny ts r = true
  | [], _, _, _, _, _, h => by rw [unionWalk] at h; cases h
  | t :: ts, cx, fx, v, r, hw, h => by
      simp only [WFL] at hw
      rw [unionWalk] at h
      rw [confAny]
      by_cases hs : t.isScalar = true
      · rw [if_pos hs] at h
        by_cases hc : (t.scalarCls == classOf v) = true
        · rw [if_pos hc] at h
          have h' : v = r := by simpa using h
          subst h'
          simp [scalar_conf_self t v hs hc]
        · rw [if_neg hc] at h
          simp [ucWalk ts cx fx v r hw.2 h]
      · rw [if_neg hs] at h
        by_cases hi : t.unpackIdent = true
        · rw [if_pos hi] at h
          have h' : v = r := by simpa using h
          subst h'
          simp [ident_conf_any t v hi]
        · rw [if_neg hi] at h
          cases hr : unpack O cx fx t v with
          | ok r' =>
            rw [hr] at h
            have h' : r' = r := by simpa using h
            subst h'
            simp [uc t cx fx v r' hw.1 hr]
          | error e =>
            rw [hr] at h
            simp [ucWalk ts cx fx v r hw.2 h]

theorem ucIdx : ∀ (ts : List Ty) (cx : Cx) (fx : Fx) (v : V) (i : Int) (rs : List V), WFL ts →
    unpackIdx O cx fx ts v i = .ok rs → confL ts rs = true
  | [], _, _, _, _, rs, _, h => by rw [unpackIdx] at h; cases h; simp [confL]
  | t :: ts, cx, fx, v, i, rs, hw, h => by
      simp only [WFL] at hw
      rw [unpackIdx] at h
      obtain ⟨x, hx, h⟩ := bind_ok_inv h
      obtain ⟨a, ha, h⟩ := bind_ok_inv h
      obtain ⟨rest, hrest, h⟩ := bind_ok_inv h
      simp [pure, Except.pure] at h; subst h
      rw [confL]
      simp [uc t cx fx x a hw.1 ha, ucIdx ts cx fx v (i + 1) rest hw.2 hrest]
theorem ucNT : ∀ (fs : List (String × Ty)) (cx : Cx) (fx : Fx) (v : V) (i : Int) (asD : Bool) (rs : List V), WFN fs →
    unpackNT O cx fx fs v i asD = .ok rs → confN fs rs = true
  | [], _, _, _, _, _, rs, _, h => by rw [unpackNT] at h; cases h; simp [confN]
  | (n, t) :: fs, cx, fx, v, i, asD, rs, hw, h => by
      simp only [WFN] at hw
      rw [unpackNT] at h
      obtain ⟨x, hx, h⟩ := bind_ok_inv h
      obtain ⟨a, ha, h⟩ := bind_ok_inv h
      obtain ⟨rest, hrest, h⟩ := bind_ok_inv h
      simp [pure, Except.pure] at h; subst h
      rw [confN]
      simp [uc t cx fx x a hw.1 ha, ucNT fs cx fx v (i + 1) asD rest hw.2 hrest]

theorem ucNTk : ∀ (fs : List (String × Ty)) (cx : Cx) (fx : Fx) (v : V) (nreq : Nat) (defs : List V) (rs : List (Option V)), WFN fs →
    nreq + defs.length = fs.length → confN (fs.drop nreq) defs = true →
    unpackNTk O cx fx fs nreq defs v = .ok rs →
    rs.length = fs.length ∧ (rs.all Option.isSome = true → confN fs (rs.filterMap id) = true)
  | [], _, _, _, _, _, rs, _, _, _, h => by rw [unpackNTk] at h; cases h; simp [confN]
  | (n, t) :: fs, cx, fx, v, nreq, defs, rs, hw, hlen, hdef, h => by
      simp only [WFN] at hw
      rw [unpackNTk] at h
      -- what the recursive call gets, and what the default of this member is
      have hrec : ∀ r, unpackNTk O cx fx fs (nreq - 1) (if nreq = 0 then defs.tail else defs) v = .ok r →
          r.length = fs.length ∧ (r.all Option.isSome = true → confN fs (r.filterMap id) = true) := by
        intro r hr
        cases nreq with
        | zero =>
          cases defs with
          | nil => simp at hlen
          | cons d ds =>
            simp only [List.drop_zero, confN, Bool.and_eq_true] at hdef
            exact ucNTk fs cx fx v 0 ds r hw.2 (by simpa using hlen) (by simpa using hdef.2) (by simpa using hr)
        | succ k =>
          exact ucNTk fs cx fx v k defs r hw.2 (by simp at hlen ⊢; omega) (by simpa using hdef) (by simpa using hr)
      have hdfl : ∀ dv, (if nreq = 0 then defs.head? else none) = some dv → conf t dv = true := by
        intro dv hdv
        cases nreq with
        | zero =>
          cases defs with
          | nil => simp at hdv
          | cons d ds =>
            simp only [List.drop_zero, confN, Bool.and_eq_true] at hdef
            simp at hdv; subst hdv; exact hdef.1
        | succ k => simp at hdv
      cases hx : pyGetItemStr v n with
      | error e =>
        rw [hx] at h
        simp only [] at h
        split at h
        · obtain ⟨r, hr, h⟩ := bind_ok_inv h
          simp [pure, Except.pure] at h; subst h
          obtain ⟨hl, hc⟩ := hrec r hr
          refine ⟨by simp [hl], ?_⟩
          intro hall
          simp only [List.all_cons, Bool.and_eq_true] at hall
          cases hd : (if nreq = 0 then defs.head? else none) with
          | none => rw [hd] at hall; simp at hall
          | some dv =>
            simp only [hd, List.filterMap_cons, id]
            rw [confN]
            simp [hdfl dv hd, hc hall.2]
        · cases h
      | ok x =>
        rw [hx] at h
        simp only [] at h
        obtain ⟨a, ha, h⟩ := bind_ok_inv h
        obtain ⟨r, hr, h⟩ := bind_ok_inv h
        simp [pure, Except.pure] at h; subst h
        obtain ⟨hl, hc⟩ := hrec r hr
        refine ⟨by simp [hl], ?_⟩
        intro hall
        simp only [List.all_cons, Option.isSome_some, Bool.true_and] at hall
        simp only [List.filterMap_cons, id]
        rw [confN]
        simp [uc t cx fx x a hw.1 ha, hc hall]

theorem ucNTd : ∀ (fs : List (String × Ty)) (cx : Cx) (fx : Fx) (v : V) (i : Int) (asD : Bool) (rs : List V), WFN fs →
    unpackNTd O cx fx fs v i asD = .ok rs → rs.length ≤ fs.length ∧ confN (fs.take rs.length) rs = true
  | [], _, _, _, _, _, rs, _, h => by rw [unpackNTd] at h; cases h; simp [confN]
  | (n, t) :: fs, cx, fx, v, i, asD, rs, hw, h => by
      simp only [WFN] at hw
      rw [unpackNTd] at h
      cases hx : (if (t.constUnpack && !cx.fixK3) = true then (pure V.none : R V) else if asD = true then pyGetItemStr v n else pyIndexO O v i) with
      | error e =>
        rw [hx] at h
        simp only [] at h
        split at h
        · cases h; simp [confN]
        · cases h
      | ok x =>
        rw [hx] at h
        simp only [] at h
        cases ha : unpack O cx fx t x with
        | error e =>
          rw [ha] at h
          simp only [] at h
          split at h
          · cases h; simp [confN]
          · cases h
        | ok a =>
          rw [ha] at h
          simp only [] at h
          obtain ⟨rest, hrest, h⟩ := bind_ok_inv h
          simp [pure, Except.pure] at h; subst h
          obtain ⟨hle, hc⟩ := ucNTd fs cx fx v (i + 1) asD rest hw.2 hrest
          refine ⟨by simp; omega, ?_⟩
          simp only [List.length_cons, List.take_succ_cons]
          rw [confN]
          simp [uc t cx fx x a hw.1 ha, hc]


theorem ucFields : ∀ (fs : List (FieldDef × Ty)) (cx : Cx) (cls : String) (cfg : Cfg) (kvs : List (V × V))
    (vals : List (String × V)), WFF fs → unpackFields O cx cls cfg fs kvs = .ok vals → confF fs vals = true
  | [], _, _, _, _, vals, _, h => by rw [unpackFields] at h; cases h; simp [confF]
  | (f, t) :: fs, cx, cls, cfg, kvs, vals, hw, h => by
      simp only [WFF] at hw
      obtain ⟨hwt, hwd, hwr⟩ := hw
      rw [unpackFields] at h
      have useDefault : ∀ (dv : V) (rest : List (String × V)), f.default = some dv →
          unpackFields O cx cls cfg fs kvs = .ok rest → confF ((f, t) :: fs) ((f.name, dv) :: rest) = true := by
        intro dv rest hd hrest
        rw [confF]
        simp [hwd dv hd, ucFields fs cx cls cfg kvs rest hwr hrest]
      by_cases hinit : (!f.init) = true
      · rw [if_pos hinit] at h
        cases hd : f.default with
        | none => rw [hd] at h; simp [raisePy] at h
        | some dv =>
          rw [hd] at h
          obtain ⟨rest, hrest, h⟩ := bind_ok_inv h
          simp [pure, Except.pure] at h; subst h
          exact useDefault dv rest hd hrest
      · rw [if_neg hinit] at h
        simp only [] at h
        cases hf : findKey cfg f kvs with
        | none =>
          rw [hf] at h
          cases hd : f.default with
          | none => rw [hd] at h; cases h
          | some dv =>
            rw [hd] at h
            obtain ⟨rest, hrest, h⟩ := bind_ok_inv h
            simp [pure, Except.pure] at h; subst h
            exact useDefault dv rest hd hrest
        | some x =>
          rw [hf] at h
          simp only [] at h
          by_cases hui : t.unpackIdent = true
          · rw [if_pos hui] at h
            obtain ⟨rest, hrest, h⟩ := bind_ok_inv h
            simp [pure, Except.pure] at h; subst h
            rw [confF]
            simp [ident_conf_any t x hui, ucFields fs cx cls cfg kvs rest hwr hrest]
          · rw [if_neg hui] at h
            by_cases hcn : (fieldCouldBeNone f t && isNone x) = true
            · rw [if_pos hcn] at h
              obtain ⟨rest, hrest, h⟩ := bind_ok_inv h
              simp [pure, Except.pure] at h; subst h
              rw [confF]
              have : (conf t V.none || (isNone V.none && f.defaultIsNone)) = true := by
                simp only [Bool.and_eq_true, fieldCouldBeNone, Bool.or_eq_true] at hcn
                rcases hcn.1 with hn | hn
                · simp [nullable_conf_none t hn]
                · simp [hn, isNone]
              simp [this, ucFields fs cx cls cfg kvs rest hwr hrest]
            · rw [if_neg hcn] at h
              cases ha : unpack O cx { field := f.name, holder := cls } t x with
              | error e => rw [ha] at h; cases h
              | ok a =>
                rw [ha] at h
                simp only [] at h
                obtain ⟨rest, hrest, h⟩ := bind_ok_inv h
                simp [pure, Except.pure] at h; subst h
                rw [confF]
                simp [uc t cx _ x a hwt ha, ucFields fs cx cls cfg kvs rest hwr hrest]

theorem ucReq : ∀ (fs : List (String × Ty)) (cx : Cx) (fx : Fx) (v : V) (a : List (V × V)), WFN fs →
    unpackReq O cx fx fs v = .ok a → TdGood fs a ∧ ∀ nt ∈ fs, ∃ kv ∈ a, kv.1 = V.str nt.1
  | [], _, _, _, a, _, h => by
      rw [unpackReq] at h; cases h
      exact ⟨fun kv hkv => by simp at hkv, fun nt h => by simp at h⟩
  | (n, t) :: fs, cx, fx, v, a, hw, h => by
      simp only [WFN] at hw
      rw [unpackReq] at h
      obtain ⟨x, hx, h⟩ := bind_ok_inv h
      obtain ⟨b, hb, h⟩ := bind_ok_inv h
      obtain ⟨rest, hrest, h⟩ := bind_ok_inv h
      simp [pure, Except.pure] at h; subst h
      obtain ⟨hg, hall⟩ := ucReq fs cx fx v rest hw.2 hrest
      constructor
      · intro kv hkv
        cases hkv with
        | head => exact ⟨n, t, rfl, by simp, uc t cx fx x b hw.1 hb⟩
        | tail _ h' =>
          obtain ⟨m, u, h1, h2, h3⟩ := hg kv h'
          exact ⟨m, u, h1, by simp [h2], h3⟩
      · intro nt hnt
        cases hnt with
        | head => exact ⟨(V.str n, b), by simp, rfl⟩
        | tail _ h' =>
          obtain ⟨kv, hkv, hk⟩ := hall nt h'
          exact ⟨kv, by simp [hkv], hk⟩

theorem ucOpt : ∀ (fs : List (String × Ty)) (cx : Cx) (fx : Fx) (v : V) (b : List (V × V)), WFN fs →
    unpackOpt O cx fx fs v = .ok b → TdGood fs b
  | [], _, _, _, b, _, h => by
      rw [unpackOpt] at h; cases h
      exact fun kv hkv => by simp at hkv
  | (n, t) :: fs, cx, fx, v, b, hw, h => by
      simp only [WFN] at hw
      rw [unpackOpt] at h
      obtain ⟨x, hx, h⟩ := bind_ok_inv h
      cases x with
      | none =>
        simp only [] at h
        have := ucOpt fs cx fx v b hw.2 h
        intro kv hkv
        obtain ⟨m, u, h1, h2, h3⟩ := this kv hkv
        exact ⟨m, u, h1, by simp [h2], h3⟩
      | some x =>
        simp only [] at h
        obtain ⟨c, hc, h⟩ := bind_ok_inv h
        obtain ⟨rest, hrest, h⟩ := bind_ok_inv h
        simp [pure, Except.pure] at h; subst h
        have hg := ucOpt fs cx fx v rest hw.2 hrest
        intro kv hkv
        cases hkv with
        | head => exact ⟨n, t, rfl, by simp, uc t cx fx x c hw.1 hc⟩
        | tail _ h' =>
          obtain ⟨m, u, h1, h2, h3⟩ := hg kv h'
          exact ⟨m, u, h1, by simp [h2], h3⟩
end

end

/-- **C03**: every value the deserializer returns — for ANY input, at any nesting depth, through
    the mixin or a codec, with or without the reference switches — is an instance of its
    annotation built from the canonical concrete classes. -/
theorem unpack_conf (O : Oracle) (hT : TypeLaws O) (S : Ty) (cx : Cx) (fx : Fx) (d r : V)
    (hw : WF S) (h : unpack O cx fx S d = .ok r) : conf S r = true :=
  uc O hT S cx fx d r hw h

/-- None is returned for a None input only where the annotation admits it (scalar positions) -/
theorem none_only_where_nullable (O : Oracle) (hT : TypeLaws O) (S : Ty) (cx : Cx) (fx : Fx) (d : V)
    (hw : WF S) (h : unpack O cx fx S d = .ok .none) : conf S .none = true :=
  uc O hT S cx fx d .none hw h

/-- the unpacker registry is "first match wins": the case order of `unpack` transcribes it -/
theorem unpacker_order_pinned : Mashu.Generated.unpackerOrder =
    ["unpack_type_with_overridden_deserialization", "unpack_serializable_type",
     "unpack_generic_serializable_type", "unpack_dataclass", "unpack_final", "unpack_any",
     "unpack_special_typing_primitive", "unpack_number", "unpack_bool", "unpack_none",
     "unpack_date_objects", "unpack_timedelta", "unpack_timezone", "unpack_zone_info", "unpack_uuid",
     "unpack_ipaddress", "unpack_decimal", "unpack_fraction", "unpack_collection", "unpack_pathlike",
     "unpack_enum", "unpack_pattern"] := by decide

/-- non-vacuity: a schema with a union, an unpacked tuple, a named tuple with defaults, a
    TypedDict and a dataclass with a default is well formed -/
example : WF (.dc "A" {} [
    ({ name := "u" }, .union [.int, .none, .coll .list .str]),
    ({ name := "t" }, .tunp [.int] .str [.bool]),
    ({ name := "n" }, .nt "N" [("a", .int), ("b", .opt .str)] [.none] none),
    ({ name := "d", default := some (.int 3) }, .int),
    ({ name := "k" }, .td "T" [("x", .int)] [("y", .str)])]) := by
  simp [WF, WFF, WFL, WFN, conf, confN, isNone, FieldDef.defaultIsNone]

end Mashu
