/-
  C15 — all entry points agree.

  The model has ONE serializer `pack`, parameterised by the entry point (`cx.nailed`: methods
  compiled on the class = mixin path; otherwise the codec path with holder objects).  What the
  two paths are allowed to differ in is the exception raised for a value no union member /
  literal accepts, and the mixin path's dispatch on the runtime class of a nested instance.

  * `pack_le` (mutual structural induction over the union-free grammar, every input — not only
    conforming ones): whenever the mixin path returns b, the codec path returns the same b.
  * `elementwise_list`, `elementwise_optional`, `nested_field`: a codec for `List[S]` /
    `Optional[S]` / a dataclass with a field of type S is the element serializer applied
    elementwise / to the non-null value / to the field — so `BasicEncoder(List[D]).encode([x])[0]`,
    `Outer(f=x).to_dict()['f']` and `D.to_dict(x)` are one and the same function of x.
-/
import Mashu.Frag
import Mashu.Lemmas.Inv
import Mashu.Lemmas.Rt
import Mashu.Props.C02
namespace Mashu

/-- `r2` returns whatever `r1` returns -/
def Le {α} (r1 r2 : R α) : Prop := ∀ b, r1 = .ok b → r2 = .ok b

theorem Le.refl {α} (r : R α) : Le r r := fun _ h => h

theorem Le.err {α} (e : Exc) (r : R α) : Le (.error e) r := by
  intro b h; cases h

theorem Le.bind {α β} {x y : R α} {f g : α → R β} (h1 : Le x y) (h2 : ∀ a, Le (f a) (g a)) :
    Le (x >>= f) (y >>= g) := by
  intro b hb
  obtain ⟨a, ha, hfa⟩ := bind_ok_inv hb
  rw [h1 a ha]
  exact h2 a b hfa

theorem Le.mapM {α β} {f g : α → R β} (xs : List α) (h : ∀ a ∈ xs, Le (f a) (g a)) :
    Le (xs.mapM f) (xs.mapM g) := by
  induction xs with
  | nil => exact Le.refl _
  | cons x xs ih =>
    rw [List.mapM_cons, List.mapM_cons]
    apply Le.bind (h x (by simp))
    intro a
    apply Le.bind (ih (fun y hy => h y (by simp [hy])))
    intro _
    exact Le.refl _

theorem Le.ofKvM {fk1 fk2 fv1 fv2 : V → R V} (kv : V × V) (hk : Le (fk1 kv.1) (fk2 kv.1)) (hv : Le (fv1 kv.2) (fv2 kv.2)) :
    Le (kvM fk1 fv1 kv) (kvM fk2 fv2 kv) := by
  unfold Mashu.kvM
  apply Le.bind hk
  intro a
  apply Le.bind hv
  intro b
  exact Le.refl _

theorem Le.ofItemsM {f g : V × V → R (V × V)} (m : V) (h : ∀ kv, Le (f kv) (g kv)) : Le (itemsM f m) (itemsM g m) := by
  unfold Mashu.itemsM
  apply Le.bind (Le.refl _)
  intro kvs
  apply Le.bind (Le.mapM kvs (fun kv _ => h kv))
  intro _
  exact Le.refl _

/-- the two entry points over the same remaining context -/
abbrev nl (cx : Cx) : Cx := { cx with nailed := true }
abbrev cd (cx : Cx) : Cx := { cx with nailed := false }

mutual
theorem packIdent_nailed (cx : Cx) (b : Bool) : ∀ t : Ty, t.packIdent { cx with nailed := b } = t.packIdent cx
  | .any | .none | .bool | .int | .float | .str => rfl
  | .leaf _ => rfl
  | .union ts => by simp only [Ty.packIdent]; exact identAll_nailed cx b ts
  | .coll o t => by
      cases o <;> simp only [Ty.packIdent]
      rw [packIdent_nailed cx b t]
  | .map o k t => by
      cases o <;> simp only [Ty.packIdent]
      rw [packIdent_nailed cx b k, packIdent_nailed cx b t]
  | .opt t => by simp only [Ty.packIdent]; exact packIdent_nailed cx b t
  | .enum _ _ | .lit _ | .chain _ _ | .tvar _ | .tfix _ | .tunp _ _ _ | .nt _ _ _ _ | .td _ _ _ | .dc _ _ _ => rfl
theorem identAll_nailed (cx : Cx) (b : Bool) : ∀ ts : List Ty,
    Ty.packIdent.identAll { cx with nailed := b } ts = Ty.packIdent.identAll cx ts
  | [] => rfl
  | t :: ts => by
      simp only [Ty.packIdent.identAll]
      rw [packIdent_nailed cx b t, identAll_nailed cx b ts]
end

variable (O : Oracle)

mutual
theorem pack_le : ∀ (S : Ty) (cx : Cx) (fx : Fx) (v : V), Frag S → Le (pack O (nl cx) fx S v) (pack O (cd cx) fx S v)
  | .any, cx, fx, v, _ => by simp only [pack]; exact Le.refl _
  | .none, cx, fx, v, _ => by simp only [pack]; exact Le.refl _
  | .bool, cx, fx, v, _ => by simp only [pack]; exact Le.refl _
  | .int, cx, fx, v, _ => by simp only [pack]; exact Le.refl _
  | .float, cx, fx, v, _ => by simp only [pack]; exact Le.refl _
  | .str, cx, fx, v, _ => by simp only [pack]; exact Le.refl _
  | .leaf k, cx, fx, v, _ => by simp only [pack]; exact Le.refl _
  | .enum cls ms, cx, fx, v, _ => by simp only [pack]; exact Le.refl _
  | .lit vals, cx, fx, v, _ => by
      simp only [pack]
      split
      · exact Le.refl _
      · exact Le.err _ _
  | .opt t, cx, fx, v, hf => by
      simp only [pack]
      split
      · exact Le.refl _
      · exact pack_le t cx fx v (by simpa only [Frag] using hf)
  | .union ts, cx, fx, v, hf => by simp [Frag] at hf
  | .coll o t, cx, fx, v, hf => by
      simp only [Frag] at hf
      simp only [pack, packIdent_nailed]
      split
      · exact Le.refl _
      · apply Le.bind (Le.refl _)
        intro xs
        apply Le.bind (Le.mapM xs (fun x _ => pack_le t cx fx x hf.2))
        intro _; exact Le.refl _
  | .map o k t, cx, fx, v, hf => by
      simp only [Frag] at hf
      simp only [pack, packIdent_nailed]
      split
      · exact Le.refl _
      · apply Le.bind (Le.refl _)
        intro kvs
        apply Le.bind (Le.mapM kvs (fun kv _ => Le.ofKvM kv (pack_le k cx fx kv.1 hf.1) (by
          split
          · exact Le.refl _
          · exact pack_le t cx fx kv.2 hf.2.1)))
        intro _; exact Le.refl _
  | .chain k t, cx, fx, v, hf => by
      simp only [Frag] at hf
      simp only [pack]
      split
      · apply Le.bind (Le.mapM _ (fun m _ => Le.ofItemsM m (fun kv => Le.ofKvM kv (pack_le k cx fx kv.1 hf.1) (pack_le t cx fx kv.2 hf.2))))
        intro _; exact Le.refl _
      · exact Le.refl _
  | .tvar t, cx, fx, v, hf => by
      simp only [pack]
      apply Le.bind (Le.refl _)
      intro xs
      apply Le.bind (Le.mapM xs (fun x _ => pack_le t cx fx x (by simpa only [Frag] using hf)))
      intro _; exact Le.refl _
  | .tfix ts, cx, fx, v, hf => by
      simp only [pack]
      apply Le.bind (packIdx_le ts cx fx v 0 (by simpa only [Frag] using hf))
      intro _; exact Le.refl _
  | .tunp _ _ _, cx, fx, v, hf => by simp [Frag] at hf
  | .nt cls fs defs asD, cx, fx, v, hf => by
      simp only [pack]
      apply Le.bind (packNT_le fs cx fx v 0 (by simpa only [Frag] using hf))
      intro _; exact Le.refl _
  | .td _ _ _, cx, fx, v, hf => by simp [Frag] at hf
  | .dc cls cfg fs, cx, fx, v, hf => by
      simp only [Frag] at hf
      simp only [pack]
      split
      · rename_i c ivs
        by_cases hc : (c != cls) = true
        · simp only [hc, Bool.and_self, if_true]
          exact Le.err _ _
        · simp only [hc, Bool.and_false, Bool.false_eq_true, if_false, Bool.false_and]
          apply Le.bind (packFields_le cls cfg ivs fs { cx with ntAsDict := cfg.ntAsDict } hf.1)
          intro _; exact Le.refl _
      · exact Le.refl _

theorem packIdx_le : ∀ (ts : List Ty) (cx : Cx) (fx : Fx) (v : V) (i : Int), FragL ts →
    Le (packIdx O (nl cx) fx ts v i) (packIdx O (cd cx) fx ts v i)
  | [], cx, fx, v, i, _ => by simp only [packIdx]; exact Le.refl _
  | t :: ts, cx, fx, v, i, hf => by
      simp only [FragL] at hf
      simp only [packIdx]
      apply Le.bind (Le.refl _)
      intro x
      apply Le.bind (pack_le t cx fx x hf.1)
      intro a
      apply Le.bind (packIdx_le ts cx fx v (i + 1) hf.2)
      intro _; exact Le.refl _

theorem packNT_le : ∀ (fs : List (String × Ty)) (cx : Cx) (fx : Fx) (v : V) (i : Int), FragN fs →
    Le (packNT O (nl cx) fx fs v i) (packNT O (cd cx) fx fs v i)
  | [], cx, fx, v, i, _ => by simp only [packNT]; exact Le.refl _
  | (n, t) :: fs, cx, fx, v, i, hf => by
      simp only [FragN] at hf
      simp only [packNT]
      apply Le.bind (Le.refl _)
      intro x
      apply Le.bind (pack_le t cx fx x hf.1)
      intro a
      apply Le.bind (packNT_le fs cx fx v (i + 1) hf.2)
      intro _; exact Le.refl _

theorem packFields_le : ∀ (cls : String) (cfg : Cfg) (ivs : List (String × V)) (fs : List (FieldDef × Ty)) (cx : Cx), FragF fs →
    Le (packFields O (nl cx) cls cfg fs ivs) (packFields O (cd cx) cls cfg fs ivs)
  | cls, cfg, ivs, [], cx, _ => by simp only [packFields]; exact Le.refl _
  | cls, cfg, ivs, (f, t) :: fs, cx, hf => by
      simp only [FragF] at hf
      simp only [packFields]
      split
      · exact packFields_le cls cfg ivs fs cx hf.2
      · apply Le.bind (Le.refl _)
        intro x
        split
        · apply Le.bind (packFields_le cls cfg ivs fs cx hf.2)
          intro _; exact Le.refl _
        · apply Le.bind (pack_le t cx _ x hf.1)
          intro a
          apply Le.bind (packFields_le cls cfg ivs fs cx hf.2)
          intro _; exact Le.refl _
end

/-- **C15.**  Whatever `D.to_dict(x)` (methods on the class) returns, `BasicEncoder(D).encode(x)`
    (methods on holder objects) returns as well — for every union-free schema, every context
    (dialect natives, no-copy settings, named-tuple mode) and every input. -/
theorem entrypoints_agree (S : Ty) (cx : Cx) (fx : Fx) (v b : V) (hf : Frag S)
    (h : pack O { cx with nailed := true } fx S v = .ok b) : pack O { cx with nailed := false } fx S v = .ok b :=
  pack_le O S cx fx v hf b h

/-- a codec for `List[S]` is the element codec applied elementwise (S needing conversion) -/
theorem elementwise_list (S : Ty) (cx : Cx) (fx : Fx) (vs : List V) (h : S.packIdent cx = false) :
    pack O cx fx (.coll .list S) (.coll .list vs) = (do let r ← vs.mapM (pack O cx fx S); pure (.coll .list r)) := by
  simp only [pack, h, Bool.and_false, Bool.false_eq_true, if_false, pyIterO, pyIter, R.bind_ok]

/-- … and for an identity element type the list is copied (or passed, under no_copy_collections) with its elements as they are -/
theorem elementwise_list_ident (S : Ty) (cx : Cx) (fx : Fx) (vs : List V) (h : S.packIdent cx = true) :
    pack O cx fx (.coll .list S) (.coll .list vs) = .ok (.coll .list vs) := by
  simp only [pack, h, Bool.and_true, beq_self_eq_true, if_true, pyCopy]
  split <;> rfl

/-- `Optional[S]` serializes a non-null value exactly as `S` does -/
theorem elementwise_optional (S : Ty) (cx : Cx) (fx : Fx) (v : V) (h : isNone v = false) :
    pack O cx fx (.opt S) v = pack O cx fx S v := pack_opt_ne O cx fx S v h

/-- the value a dataclass field of type S contributes is `pack S` of the attribute (the option
    context for named tuples is that of the holder class) -/
theorem nested_field (cls : String) (cfg : Cfg) (f : FieldDef) (S : Ty) (cx : Cx) (fx : Fx) (x : V)
    (ho : f.serOmit = false) (hn : (fieldCouldBeNone f S && isNone x) = false) (hd : cfg.omitDefault = false) :
    pack O cx fx (.dc cls cfg [(f, S)]) (.inst cls [(f.name, x)])
      = (do let a ← pack O { cx with ntAsDict := cfg.ntAsDict } { field := f.name, holder := cls } S x
            pure (.map .dict [(V.str (if cfg.serializeByAlias then f.alias.getD f.name else f.name), a)])) := by
  simp only [pack, bne_self_eq_false, Bool.and_false, Bool.false_eq_true, if_false, packFields, ho, attr,
    List.lookup_cons, beq_self_eq_true, R.bind_ok, hn, hd, Bool.false_and, R.pure_eq]
  cases pack O { cx with ntAsDict := cfg.ntAsDict } { field := f.name, holder := cls } S x with
  | error e => rfl
  | ok a =>
    simp only [R.bind_ok]
    cases cfg.sortKeys <;> simp [sortEntries, insertEntry]

/-! ### conforming values: the two entry points are EQUAL -/

theorem mapM_congr' {α β} {f g : α → R β} : ∀ (xs : List α), (∀ x ∈ xs, f x = g x) → xs.mapM f = xs.mapM g
  | [], _ => rfl
  | x :: xs, h => by
      rw [List.mapM_cons, List.mapM_cons, h x (by simp), mapM_congr' xs (fun y hy => h y (by simp [hy]))]

section
variable (hO : PrintLaws O)
include hO

mutual
/-- for a value that conforms to a union-free annotation the runtime-class dispatch of the mixin
    path never departs from the annotation and no "no member matches" branch is reached: the two
    entry points compute the very same result -/
theorem pack_eq_conf : ∀ (S : Ty) (cx : Cx) (fx : Fx) (v : V), Frag S → Conf S v →
    pack O (nl cx) fx S v = pack O (cd cx) fx S v
  | .any, cx, fx, v, _, _ => by simp only [pack]
  | .none, cx, fx, v, _, _ => by simp only [pack]
  | .bool, cx, fx, v, _, _ => by simp only [pack]
  | .int, cx, fx, v, _, _ => by simp only [pack]
  | .float, cx, fx, v, _, _ => by simp only [pack]
  | .str, cx, fx, v, _, _ => by simp only [pack]
  | .leaf k, cx, fx, v, _, _ => by simp only [pack]
  | .enum cls ms, cx, fx, v, _, _ => by simp only [pack]
  | .lit vals, cx, fx, v, hf, hc => by
      simp only [Conf] at hc
      obtain ⟨cw, hmem, rfl⟩ := hc
      have hsc : LitScalar cw.1 := hf cw hmem
      simp only [pack]
      cases hfind : vals.find? (fun c => O.eq cw.1 c.1) with
      | some cw' => rfl
      | none =>
        rw [List.find?_eq_none] at hfind
        have := hfind cw hmem
        simp [hO.eq_refl cw.1 hsc] at this
  | .opt t, cx, fx, v, hf, hc => by
      simp only [pack]
      split
      · rfl
      · rename_i hn
        simp only [Conf] at hc
        rcases hc with rfl | hc'
        · exact (hn rfl).elim
        · exact pack_eq_conf t cx fx v (by simpa only [Frag] using hf) hc'
  | .union ts, cx, fx, v, hf, _ => by simp [Frag] at hf
  | .coll o t, cx, fx, v, hf, hc => by
      simp only [Frag] at hf
      simp only [Conf] at hc
      obtain ⟨vs, rfl, hall⟩ := hc
      have hit : pyIterO O (.coll o vs) = .ok vs := by
        rcases hf.1 with rfl | rfl | rfl | rfl <;> simp [pyIterO, pyIter]
      simp only [pack, packIdent_nailed, hit, R.bind_ok]
      rw [mapM_congr' vs (fun x hx => pack_eq_conf t cx fx x hf.2 (hall x hx))]
  | .map o k t, cx, fx, v, hf, hc => by
      simp only [Frag] at hf
      simp only [Conf] at hc
      obtain ⟨kvs, rfl, hall⟩ := hc
      simp only [pack, packIdent_nailed, pyItems, R.bind_ok]
      have : ∀ kv ∈ kvs, kvM (pack O (nl cx) fx k) (if o == .counter then pure else pack O (nl cx) fx t) kv
          = kvM (pack O (cd cx) fx k) (if o == .counter then pure else pack O (cd cx) fx t) kv := by
        intro kv hkv
        unfold Mashu.kvM
        rw [pack_eq_conf k cx fx kv.1 hf.1 (hall kv hkv).1]
        by_cases hc' : (o == .counter) = true
        · simp only [hc', if_true]
        · simp only [hc', Bool.false_eq_true, if_false]
          rw [pack_eq_conf t cx fx kv.2 hf.2.1 (hall kv hkv).2]
      rw [mapM_congr' kvs this]
  | .chain k t, cx, fx, v, hf, hc => by
      simp only [Frag] at hf
      simp only [Conf] at hc
      obtain ⟨ms, rfl, hall⟩ := hc
      simp only [pack]
      have : ∀ m ∈ ms, itemsM (kvM (pack O (nl cx) fx k) (pack O (nl cx) fx t)) m = itemsM (kvM (pack O (cd cx) fx k) (pack O (cd cx) fx t)) m := by
        intro m hm
        obtain ⟨kvs, rfl, hkv⟩ := hall m hm
        unfold Mashu.itemsM
        simp only [pyItems, R.bind_ok]
        have : ∀ kv ∈ kvs, kvM (pack O (nl cx) fx k) (pack O (nl cx) fx t) kv = kvM (pack O (cd cx) fx k) (pack O (cd cx) fx t) kv := by
          intro kv hkv'
          unfold Mashu.kvM
          rw [pack_eq_conf k cx fx kv.1 hf.1 (hkv kv hkv').1, pack_eq_conf t cx fx kv.2 hf.2 (hkv kv hkv').2]
        rw [mapM_congr' kvs this]
      rw [mapM_congr' ms this]
  | .tvar t, cx, fx, v, hf, hc => by
      simp only [Conf] at hc
      obtain ⟨vs, rfl, hall⟩ := hc
      simp only [pack, pyIterO, pyIter, R.bind_ok]
      rw [mapM_congr' vs (fun x hx => pack_eq_conf t cx fx x (by simpa only [Frag] using hf) (hall x hx))]
  | .tfix ts, cx, fx, v, hf, hc => by
      simp only [Conf] at hc
      obtain ⟨vs, rfl, hall⟩ := hc
      simp only [pack]
      have := packIdx_eq_conf ts cx fx [] vs (by simpa only [Frag] using hf) hall
      simp only [List.nil_append, List.length_nil, Int.natCast_zero] at this
      rw [this]
  | .tunp _ _ _, cx, fx, v, hf, _ => by simp [Frag] at hf
  | .nt cls fs defs asD, cx, fx, v, hf, hc => by
      simp only [Conf] at hc
      obtain ⟨vs, rfl, hall⟩ := hc
      simp only [pack]
      have := packNT_eq_conf cls fs cx fx [] vs (by simpa only [Frag] using hf) hall
      simp only [List.nil_append, List.length_nil, Int.natCast_zero] at this
      rw [this]
  | .td _ _ _, cx, fx, v, hf, _ => by simp [Frag] at hf
  | .dc cls cfg fs, cx, fx, v, hf, hc => by
      simp only [Frag] at hf
      simp only [Conf] at hc
      obtain ⟨ivs, rfl, hall⟩ := hc
      have hl := confF_lookup fs ivs hall hf.2
      simp only [pack, bne_self_eq_false, Bool.and_false, Bool.false_eq_true, if_false]
      have := packFields_eq_conf cls cfg ivs fs { cx with ntAsDict := cfg.ntAsDict } hf.1 hl
      simp only [nl, cd] at this
      rw [this]

theorem packIdx_eq_conf : ∀ (ts : List Ty) (cx : Cx) (fx : Fx) (pre vs : List V), FragL ts → ConfL ts vs →
    packIdx O (nl cx) fx ts (.coll .tuple (pre ++ vs)) (pre.length : Int) = packIdx O (cd cx) fx ts (.coll .tuple (pre ++ vs)) (pre.length : Int)
  | [], cx, fx, pre, vs, _, _ => by simp only [packIdx]
  | t :: ts, cx, fx, pre, vs, hf, hc => by
      cases vs with
      | nil => simp [ConfL] at hc
      | cons x xs =>
        simp only [ConfL] at hc
        simp only [FragL] at hf
        have hidx : pyIndex (.coll .tuple (pre ++ x :: xs)) (pre.length : Int) = .ok x :=
          pyIndex_tuple _ _ _ (by simp)
        have hcast : ((pre ++ [x]).length : Int) = (pre.length : Int) + 1 := by simp
        have e : pre ++ x :: xs = (pre ++ [x]) ++ xs := by simp
        have ih := packIdx_eq_conf ts cx fx (pre ++ [x]) xs hf.2 hc.2
        rw [← e, hcast] at ih
        simp only [packIdx]
        by_cases hcp : t.constPack = true
        · simp only [hcp, if_true, R.pure_eq, R.bind_ok]
          rw [pack_const O (nl cx) fx t hcp V.none x, pack_const O (cd cx) fx t hcp V.none x, pack_eq_conf t cx fx x hf.1 hc.1, ih]
        · simp only [hcp, Bool.false_eq_true, if_false, pyIndexO, hidx, R.bind_ok]
          rw [pack_eq_conf t cx fx x hf.1 hc.1, ih]

theorem packNT_eq_conf : ∀ (cls : String) (fs : List (String × Ty)) (cx : Cx) (fx : Fx) (pre vs : List V), FragN fs → ConfN fs vs →
    packNT O (nl cx) fx fs (.ntuple cls (pre ++ vs)) (pre.length : Int) = packNT O (cd cx) fx fs (.ntuple cls (pre ++ vs)) (pre.length : Int)
  | _, [], cx, fx, pre, vs, _, _ => by simp only [packNT]
  | cls, (n, t) :: fs, cx, fx, pre, vs, hf, hc => by
      cases vs with
      | nil => simp [ConfN] at hc
      | cons x xs =>
        simp only [ConfN] at hc
        simp only [FragN] at hf
        have hidx : pyIndex (.ntuple cls (pre ++ x :: xs)) (pre.length : Int) = .ok x :=
          pyIndex_ntuple _ _ _ _ (by simp)
        have hcast : ((pre ++ [x]).length : Int) = (pre.length : Int) + 1 := by simp
        have e : pre ++ x :: xs = (pre ++ [x]) ++ xs := by simp
        have ih := packNT_eq_conf cls fs cx fx (pre ++ [x]) xs hf.2 hc.2
        rw [← e, hcast] at ih
        simp only [packNT]
        by_cases hcp : t.constPack = true
        · simp only [hcp, if_true, R.pure_eq, R.bind_ok]
          rw [pack_const O (nl cx) fx t hcp V.none x, pack_const O (cd cx) fx t hcp V.none x, pack_eq_conf t cx fx x hf.1 hc.1, ih]
        · simp only [hcp, Bool.false_eq_true, if_false, pyIndexO, hidx, R.bind_ok]
          rw [pack_eq_conf t cx fx x hf.1 hc.1, ih]

theorem packFields_eq_conf : ∀ (cls : String) (cfg : Cfg) (ivs : List (String × V)) (fs : List (FieldDef × Ty)) (cx : Cx), FragF fs →
    (∀ ft ∈ fs, ∃ v, ivs.lookup ft.1.name = some v ∧ (Conf ft.2 v ∨ (v = .none ∧ ft.1.default = some .none))) →
    packFields O (nl cx) cls cfg fs ivs = packFields O (cd cx) cls cfg fs ivs
  | _, _, _, [], cx, _, _ => by simp only [packFields]
  | cls, cfg, ivs, (f, t) :: fs, cx, hf, hl => by
      simp only [FragF] at hf
      have ih := packFields_eq_conf cls cfg ivs fs cx hf.2 (fun ft hft => hl ft (by simp [hft]))
      obtain ⟨x, hx, hcx⟩ := hl (f, t) (by simp)
      have hattr : attr ivs f.name = .ok x := by simp [attr, hx]
      simp only [packFields]
      by_cases hom : f.serOmit = true
      · simp only [hom, if_true]; exact ih
      · simp only [hom, Bool.false_eq_true, if_false, hattr, R.bind_ok]
        by_cases hnn : (fieldCouldBeNone f t && isNone x) = true
        · simp only [hnn, if_true, ih]
        · have hconf : Conf t x := by
            rcases hcx with h | ⟨rfl, hd⟩
            · exact h
            · exfalso; apply hnn
              have hd' : f.default = some .none := hd
              simp [fieldCouldBeNone, FieldDef.defaultIsNone, hd', isNone]
          simp only [hnn, Bool.false_eq_true, if_false]
          rw [pack_eq_conf t cx { field := f.name, holder := cls } x hf.1 hconf, ih]
end

/-- **C15, serialization, conforming values.**  `D.to_dict(x)` and `BasicEncoder(D).encode(x)` are
    EQUAL (same result, or — never, by C02 — the same failure) for every union-free schema. -/
theorem entrypoints_equal (S : Ty) (cx : Cx) (fx : Fx) (v : V) (hf : Frag S) (hc : Conf S v) :
    pack O { cx with nailed := true } fx S v = pack O { cx with nailed := false } fx S v :=
  pack_eq_conf O hO S cx fx v hf hc

end

/-! ### decoding: the whole grammar, unions included -/

/-- same result, or errors of the same Python class (so that every `except <Class>` in generated
    code treats them alike) -/
def Eqv {α} : R α → R α → Prop
  | .ok a, .ok b => a = b
  | .error e1, .error e2 => e1.kind = e2.kind
  | _, _ => False

theorem Eqv.refl {α} (r : R α) : Eqv r r := by cases r <;> simp [Eqv]

theorem Eqv.cases {α} {r1 r2 : R α} (h : Eqv r1 r2) :
    (∃ a, r1 = .ok a ∧ r2 = .ok a) ∨ (∃ e1 e2, r1 = .error e1 ∧ r2 = .error e2 ∧ e1.kind = e2.kind) := by
  cases r1 <;> cases r2 <;> simp [Eqv] at h
  · exact Or.inr ⟨_, _, rfl, rfl, h⟩
  · exact Or.inl ⟨_, rfl, by rw [h]⟩

theorem Eqv.bind {α β} {x y : R α} {f g : α → R β} (h1 : Eqv x y) (h2 : ∀ a, Eqv (f a) (g a)) :
    Eqv (x >>= f) (y >>= g) := by
  rcases h1.cases with ⟨a, rfl, rfl⟩ | ⟨e1, e2, rfl, rfl, hk⟩
  · exact h2 a
  · exact hk

theorem Eqv.mapM {α β} {f g : α → R β} (xs : List α) (h : ∀ a ∈ xs, Eqv (f a) (g a)) :
    Eqv (xs.mapM f) (xs.mapM g) := by
  induction xs with
  | nil => exact Eqv.refl _
  | cons x xs ih =>
    rw [List.mapM_cons, List.mapM_cons]
    apply Eqv.bind (h x (by simp))
    intro a
    apply Eqv.bind (ih (fun y hy => h y (by simp [hy])))
    intro _
    exact Eqv.refl _

theorem Eqv.ofKvMH {fk1 fk2 fv1 fv2 : V → R V} (kv : V × V) (hk : Eqv (fk1 kv.1) (fk2 kv.1)) (hv : Eqv (fv1 kv.2) (fv2 kv.2)) :
    Eqv (kvMH fk1 fv1 kv) (kvMH fk2 fv2 kv) := by
  unfold Mashu.kvMH
  apply Eqv.bind hk
  intro a
  apply Eqv.bind hv
  intro b
  exact Eqv.refl _

theorem Eqv.ofItemsM {f g : V × V → R (V × V)} (m : V) (h : ∀ kv, Eqv (f kv) (g kv)) : Eqv (itemsM f m) (itemsM g m) := by
  unfold Mashu.itemsM
  apply Eqv.bind (Eqv.refl _)
  intro kvs
  apply Eqv.bind (Eqv.mapM kvs (fun kv _ => h kv))
  intro _
  exact Eqv.refl _

theorem Eqv.ofFromDict (cls : String) (cfg : Cfg) (fs : List (FieldDef × Ty)) (d : V)
    {f g : List (V × V) → R (List (String × V))} (h : ∀ kvs, Eqv (f kvs) (g kvs)) :
    Eqv (fromDict cls cfg fs d f) (fromDict cls cfg fs d g) := by
  unfold Mashu.fromDict
  simp only
  split
  · split
    · exact Eqv.refl _
    · apply Eqv.bind (h _)
      intro _; exact Eqv.refl _
  · exact Eqv.refl _

theorem noMatch_kind (cx : Cx) (fx : Fx) (v : V) : (noMatch (nl cx) fx v).kind = (noMatch (cd cx) fx v).kind := by
  simp [noMatch, Exc.kind]

mutual
theorem unpack_eqv : ∀ (S : Ty) (cx : Cx) (fx : Fx) (v : V), Eqv (unpack O (nl cx) fx S v) (unpack O (cd cx) fx S v)
  | .any, cx, fx, v => by simp only [unpack]; exact Eqv.refl _
  | .none, cx, fx, v => by simp only [unpack]; exact Eqv.refl _
  | .bool, cx, fx, v => by simp only [unpack]; exact Eqv.refl _
  | .int, cx, fx, v => by simp only [unpack]; exact Eqv.refl _
  | .float, cx, fx, v => by simp only [unpack]; exact Eqv.refl _
  | .str, cx, fx, v => by simp only [unpack]; exact Eqv.refl _
  | .leaf k, cx, fx, v => by simp only [unpack]; exact Eqv.refl _
  | .enum cls ms, cx, fx, v => by simp only [unpack]; exact Eqv.refl _
  | .lit vals, cx, fx, v => by simp only [unpack]; exact Eqv.refl _
  | .opt t, cx, fx, v => by
      simp only [unpack]
      split
      · exact Eqv.refl _
      · exact unpack_eqv t cx fx v
  | .union ts, cx, fx, v => by
      simp only [unpack]
      rw [unionWalk_eq ts cx fx v]
      split
      · exact Eqv.refl _
      · split
        · exact Eqv.refl _
        · split
          · exact Eqv.refl _
          · exact noMatch_kind cx fx v
  | .coll o t, cx, fx, v => by
      simp only [unpack]
      apply Eqv.bind (Eqv.refl _)
      intro xs
      apply Eqv.bind (Eqv.mapM xs (fun x _ => unpack_eqv t cx fx x))
      intro _; exact Eqv.refl _
  | .map o k t, cx, fx, v => by
      simp only [unpack]
      apply Eqv.bind (Eqv.refl _)
      intro kvs
      apply Eqv.bind (Eqv.mapM kvs (fun kv _ => Eqv.ofKvMH kv (unpack_eqv k cx fx kv.1) (by
        split
        · exact Eqv.refl _
        · exact unpack_eqv t cx fx kv.2)))
      intro _; exact Eqv.refl _
  | .chain k t, cx, fx, v => by
      simp only [unpack]
      apply Eqv.bind (Eqv.refl _)
      intro ms
      apply Eqv.bind (Eqv.mapM ms (fun m _ => Eqv.ofItemsM m (fun kv => Eqv.ofKvMH kv (unpack_eqv k cx fx kv.1) (unpack_eqv t cx fx kv.2))))
      intro _; exact Eqv.refl _
  | .tvar t, cx, fx, v => by
      simp only [unpack]
      apply Eqv.bind (Eqv.refl _)
      intro xs
      apply Eqv.bind (Eqv.mapM xs (fun x _ => unpack_eqv t cx fx x))
      intro _; exact Eqv.refl _
  | .tfix ts, cx, fx, v => by
      simp only [unpack]
      apply Eqv.bind (unpackIdx_eqv ts cx fx v 0)
      intro _; exact Eqv.refl _
  | .tunp pre mid post, cx, fx, v => by
      simp only [unpack]
      apply Eqv.bind (unpackIdx_eqv pre cx fx v 0)
      intro a
      apply Eqv.bind (Eqv.refl _)
      intro sl
      apply Eqv.bind (Eqv.mapM sl (fun x _ => unpack_eqv mid cx fx x))
      intro b
      apply Eqv.bind (unpackIdx_eqv post cx fx v _)
      intro _; exact Eqv.refl _
  | .nt cls fs defs asD, cx, fx, v => by
      simp only [unpack]
      split
      · apply Eqv.bind (unpackNT_eqv fs cx fx v 0 _)
        intro _; exact Eqv.refl _
      · split
        · apply Eqv.bind (unpackNTk_eqv fs cx fx v _ _)
          intro _; exact Eqv.refl _
        · apply Eqv.bind (unpackNTd_eqv fs cx fx v 0 _)
          intro _; exact Eqv.refl _
  | .td _ req opt, cx, fx, v => by
      simp only [unpack]
      apply Eqv.bind (unpackReq_eqv req cx fx v)
      intro a
      apply Eqv.bind (unpackOpt_eqv opt cx fx v)
      intro _; exact Eqv.refl _
  | .dc cls cfg fs, cx, fx, d => by
      simp only [unpack]
      exact Eqv.ofFromDict cls cfg fs d (fun kvs => unpackFields_eqv cls cfg fs kvs { cx with ntAsDict := cfg.ntAsDict })

theorem unionWalk_eq : ∀ (ts : List Ty) (cx : Cx) (fx : Fx) (v : V),
    unionWalk O (nl cx) fx ts v = unionWalk O (cd cx) fx ts v
  | [], cx, fx, v => by simp only [unionWalk]
  | t :: ts, cx, fx, v => by
      simp only [unionWalk]
      rw [unionWalk_eq ts cx fx v]
      split
      · rfl
      · split
        · rfl
        · rcases (unpack_eqv t cx fx v).cases with ⟨a, h1, h2⟩ | ⟨e1, e2, h1, h2, _⟩ <;> simp only [h1, h2]

theorem unpackIdx_eqv : ∀ (ts : List Ty) (cx : Cx) (fx : Fx) (v : V) (i : Int),
    Eqv (unpackIdx O (nl cx) fx ts v i) (unpackIdx O (cd cx) fx ts v i)
  | [], cx, fx, v, i => by simp only [unpackIdx]; exact Eqv.refl _
  | t :: ts, cx, fx, v, i => by
      simp only [unpackIdx]
      apply Eqv.bind (Eqv.refl _)
      intro x
      apply Eqv.bind (unpack_eqv t cx fx x)
      intro a
      apply Eqv.bind (unpackIdx_eqv ts cx fx v (i + 1))
      intro _; exact Eqv.refl _

theorem unpackNT_eqv : ∀ (fs : List (String × Ty)) (cx : Cx) (fx : Fx) (v : V) (i : Int) (asD : Bool),
    Eqv (unpackNT O (nl cx) fx fs v i asD) (unpackNT O (cd cx) fx fs v i asD)
  | [], cx, fx, v, i, asD => by simp only [unpackNT]; exact Eqv.refl _
  | (n, t) :: fs, cx, fx, v, i, asD => by
      simp only [unpackNT]
      apply Eqv.bind (Eqv.refl _)
      intro x
      apply Eqv.bind (unpack_eqv t cx fx x)
      intro a
      apply Eqv.bind (unpackNT_eqv fs cx fx v (i + 1) asD)
      intro _; exact Eqv.refl _

theorem unpackNTk_eqv : ∀ (fs : List (String × Ty)) (cx : Cx) (fx : Fx) (v : V) (nreq : Nat) (defs : List V),
    Eqv (unpackNTk O (nl cx) fx fs nreq defs v) (unpackNTk O (cd cx) fx fs nreq defs v)
  | [], cx, fx, v, nreq, defs => by simp only [unpackNTk]; exact Eqv.refl _
  | (n, t) :: fs, cx, fx, v, nreq, defs => by
      simp only [unpackNTk]
      split
      · split
        · apply Eqv.bind (unpackNTk_eqv fs cx fx v _ _)
          intro _; exact Eqv.refl _
        · exact Eqv.refl _
      · rename_i x _
        apply Eqv.bind (unpack_eqv t cx fx x)
        intro _
        apply Eqv.bind (unpackNTk_eqv fs cx fx v _ _)
        intro _; exact Eqv.refl _

theorem unpackNTd_eqv : ∀ (fs : List (String × Ty)) (cx : Cx) (fx : Fx) (v : V) (i : Int) (asD : Bool),
    Eqv (unpackNTd O (nl cx) fx fs v i asD) (unpackNTd O (cd cx) fx fs v i asD)
  | [], cx, fx, v, i, asD => by simp only [unpackNTd]; exact Eqv.refl _
  | (n, t) :: fs, cx, fx, v, i, asD => by
      simp only [unpackNTd]
      have e1 : (nl cx).fixK3 = cx.fixK3 := rfl
      have e2 : (cd cx).fixK3 = cx.fixK3 := rfl
      rw [e1, e2]
      generalize (if (t.constUnpack && !cx.fixK3) = true then (pure V.none : R V) else if asD = true then pyGetItemStr v n else pyIndexO O v i) = scr
      cases scr with
      | error e => exact Eqv.refl _
      | ok x =>
        simp only []
        rcases (unpack_eqv t cx fx x).cases with ⟨a, h1, h2⟩ | ⟨e1, e2, h1, h2, hk⟩
        · simp only [h1, h2]
          apply Eqv.bind (unpackNTd_eqv fs cx fx v (i + 1) asD)
          intro _; exact Eqv.refl _
        · simp only [h1, h2, Exc.isKind, hk]
          by_cases hc : (!cx.fixK3 && e2.kind == EK.indexError) = true
          · simp only [hc, if_true]; exact Eqv.refl _
          · simp only [hc, if_false]; exact hk

theorem unpackReq_eqv : ∀ (fs : List (String × Ty)) (cx : Cx) (fx : Fx) (v : V),
    Eqv (unpackReq O (nl cx) fx fs v) (unpackReq O (cd cx) fx fs v)
  | [], cx, fx, v => by simp only [unpackReq]; exact Eqv.refl _
  | (n, t) :: fs, cx, fx, v => by
      simp only [unpackReq]
      apply Eqv.bind (Eqv.refl _)
      intro x
      apply Eqv.bind (unpack_eqv t cx fx x)
      intro a
      apply Eqv.bind (unpackReq_eqv fs cx fx v)
      intro _; exact Eqv.refl _

theorem unpackOpt_eqv : ∀ (fs : List (String × Ty)) (cx : Cx) (fx : Fx) (v : V),
    Eqv (unpackOpt O (nl cx) fx fs v) (unpackOpt O (cd cx) fx fs v)
  | [], cx, fx, v => by simp only [unpackOpt]; exact Eqv.refl _
  | (n, t) :: fs, cx, fx, v => by
      simp only [unpackOpt]
      apply Eqv.bind (Eqv.refl _)
      intro x
      split
      · exact unpackOpt_eqv fs cx fx v
      · rename_i y
        apply Eqv.bind (unpack_eqv t cx fx y)
        intro a
        apply Eqv.bind (unpackOpt_eqv fs cx fx v)
        intro _; exact Eqv.refl _

theorem unpackFields_eqv : ∀ (cls : String) (cfg : Cfg) (fs : List (FieldDef × Ty)) (kvs : List (V × V)) (cx : Cx),
    Eqv (unpackFields O (nl cx) cls cfg fs kvs) (unpackFields O (cd cx) cls cfg fs kvs)
  | cls, cfg, [], kvs, cx => by simp only [unpackFields]; exact Eqv.refl _
  | cls, cfg, (f, t) :: fs, kvs, cx => by
      simp only [unpackFields]
      split
      · split
        · apply Eqv.bind (unpackFields_eqv cls cfg fs kvs cx)
          intro _; exact Eqv.refl _
        · exact Eqv.refl _
      · split
        · split
          · exact Eqv.refl _
          · apply Eqv.bind (unpackFields_eqv cls cfg fs kvs cx)
            intro _; exact Eqv.refl _
        · rename_i x _
          split
          · apply Eqv.bind (unpackFields_eqv cls cfg fs kvs cx)
            intro _; exact Eqv.refl _
          · split
            · apply Eqv.bind (unpackFields_eqv cls cfg fs kvs cx)
              intro _; exact Eqv.refl _
            · rcases (unpack_eqv t cx { field := f.name, holder := cls } x).cases with ⟨a, h1, h2⟩ | ⟨e1, e2, h1, h2, _⟩
              · simp only [h1, h2]
                apply Eqv.bind (unpackFields_eqv cls cfg fs kvs cx)
                intro _; exact Eqv.refl _
              · simp only [h1, h2]
                exact Eqv.refl _
end

/-- **C15, decoding.**  For every schema of the WHOLE grammar (unions, unpacked tuples, named
    tuples with defaults, TypedDicts, dataclasses) and every input, `D.from_dict(d)` and
    `BasicDecoder(D).decode(d)` return the same value or both fail (with exceptions of the same
    Python class). -/
theorem entrypoints_agree_decode (S : Ty) (cx : Cx) (fx : Fx) (d b : V) :
    unpack O { cx with nailed := true } fx S d = .ok b ↔ unpack O { cx with nailed := false } fx S d = .ok b := by
  rcases (unpack_eqv O S cx fx d).cases with ⟨a, h1, h2⟩ | ⟨e1, e2, h1, h2, _⟩
  · simp only [nl, cd] at h1 h2; rw [h1, h2]
  · simp only [nl, cd] at h1 h2; rw [h1, h2]; simp

end Mashu
