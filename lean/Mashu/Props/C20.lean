/-
  C20 — schema generation is total, well formed and closed.

  Over the schema model (Mashu.Schema, tied to the real documents by exact document
  correspondence on every run):
  * `schema_wellformed` (mutual structural induction over the whole type grammar): the generated
    schema satisfies the structural constraints the Draft 2020-12 metaschema puts on the emitted
    keywords that the generator could get wrong — every name under `required` is a declared
    property (`required_subset_props`), recursively through every nesting;
  * `default_total`: the `default` the generator computes for a field (by serializing a throw-away
    class `CC(x: T)` that inherits the owner's Config, and reading the only value) exists for
    every default that conforms to its annotation, under EVERY owner Config — key-dropping and
    renaming options (omit_none, omit_default, aliases, serialize_by_alias) cannot make it fail
    (this is the clause repaired by fix F8);
  * the model function `schemaOf` is total by construction: what can make the real generator fail
    is outside it and recorded as findings (K8 self-reference, K18 re.Pattern).
  Closedness of `$ref`s, accumulation of definitions across builds and the
  `JSONSchema.from_dict(...).to_dict()` round trip are decided on the implementation.
-/
import Mashu.Schema
import Mashu.Props.C02
namespace Mashu.Schema
open Mashu

mutual
/-- structural well-formedness of a generated schema -/
def WF : Sch → Prop
  | .any | .typ _ _ | .utc | .enum _ _ => True
  | .anyOf ss => WFL ss
  | .arrOf items _ => WF items
  | .tupleOf pre => WFL pre
  | .mapOf names vals => WF names ∧ WF vals
  | .record _ props req => WFP props ∧ ∀ r ∈ req, r ∈ props.map (·.1)
def WFL : List Sch → Prop
  | [] => True
  | s :: ss => WF s ∧ WFL ss
def WFP : List (String × Sch) → Prop
  | [] => True
  | (_, s) :: ps => WF s ∧ WFP ps
end

theorem required_subset_props (ntd : Bool) : ∀ (fs : List (FieldDef × Ty)) (r : String),
    r ∈ requiredOf fs → r ∈ (schemaOfF ntd fs).map (·.1)
  | [], r, h => by simp [requiredOf] at h
  | (f, t) :: fs, r, h => by
      simp only [requiredOf] at h
      simp only [schemaOfF]
      cases hi : f.init with
      | false =>
        simp only [hi, Bool.false_and, Bool.false_eq_true, if_false] at h ⊢
        exact required_subset_props ntd fs r h
      | true =>
        simp only [hi, Bool.true_and, if_true, List.map_cons, List.mem_cons] at h ⊢
        split at h
        · simp only [List.mem_cons] at h
          rcases h with rfl | h
          · exact Or.inl rfl
          · exact Or.inr (required_subset_props ntd fs r h)
        · exact Or.inr (required_subset_props ntd fs r h)

theorem wfl_map_snd : ∀ (ps : List (String × Sch)), WFP ps → WFL (ps.map (·.2))
  | [], _ => by simp [WFL]
  | (n, s) :: ps, h => by
      simp only [WFP] at h
      simp only [List.map_cons, WFL]
      exact ⟨h.1, wfl_map_snd ps h.2⟩

theorem wfp_append : ∀ (a b : List (String × Sch)), WFP a → WFP b → WFP (a ++ b)
  | [], b, _, hb => hb
  | (n, s) :: a, b, ha, hb => by
      simp only [WFP] at ha
      simp only [List.cons_append, WFP]
      exact ⟨ha.1, wfp_append a b ha.2 hb⟩

theorem schemaOfN_names (ntd : Bool) : ∀ (fs : List (String × Ty)), (schemaOfN ntd fs).map (·.1) = fs.map (·.1)
  | [] => rfl
  | (n, t) :: fs => by simp only [schemaOfN, List.map_cons, schemaOfN_names ntd fs]

mutual
theorem schema_wellformed (ntd : Bool) : ∀ (S : Ty), WF (schemaOf ntd S)
  | .any | .none | .bool | .int | .float | .str => by simp [schemaOf, WF]
  | .leaf k => by cases k <;> simp [schemaOf, leafSch, WF]
  | .enum _ _ => by simp [schemaOf, WF]
  | .lit _ => by simp [schemaOf, WF]
  | .opt t => by simp only [schemaOf, WF, WFL]; exact ⟨schema_wellformed ntd t, trivial, trivial⟩
  | .union ts => by simp only [schemaOf, WF]; exact schemaL_wellformed ntd ts
  | .coll _ t => by simp only [schemaOf, WF]; exact schema_wellformed ntd t
  | .map o k t => by
      simp only [schemaOf, WF]
      refine ⟨schema_wellformed ntd k, ?_⟩
      split
      · simp [WF]
      · exact schema_wellformed ntd t
  | .chain k t => by simp only [schemaOf, WF]; exact ⟨schema_wellformed ntd k, schema_wellformed ntd t⟩
  | .tvar t => by simp only [schemaOf, WF]; exact schema_wellformed ntd t
  | .tfix ts => by simp only [schemaOf, WF]; exact schemaL_wellformed ntd ts
  | .tunp _ _ _ => by simp [schemaOf, WF]
  | .nt _ fs _ asD => by
      simp only [schemaOf]
      split
      · simp only [WF]
        exact ⟨schemaN_wellformed ntd fs, by intro r hr; rw [schemaOfN_names]; exact hr⟩
      · simp only [WF]
        exact wfl_map_snd _ (schemaN_wellformed ntd fs)
  | .td _ req opt => by
      simp only [schemaOf, WF]
      refine ⟨wfp_append _ _ (schemaN_wellformed ntd req) (schemaN_wellformed ntd opt), ?_⟩
      intro r hr
      simp only [List.map_append, List.mem_append, schemaOfN_names]
      exact Or.inl hr
  | .dc _ cfg fs => by
      simp only [schemaOf, WF]
      exact ⟨schemaF_wellformed cfg.ntAsDict fs, required_subset_props cfg.ntAsDict fs⟩
theorem schemaL_wellformed (ntd : Bool) : ∀ (ts : List Ty), WFL (schemaOfL ntd ts)
  | [] => by simp [schemaOfL, WFL]
  | t :: ts => by simp only [schemaOfL, WFL]; exact ⟨schema_wellformed ntd t, schemaL_wellformed ntd ts⟩
theorem schemaN_wellformed (ntd : Bool) : ∀ (fs : List (String × Ty)), WFP (schemaOfN ntd fs)
  | [] => by simp [schemaOfN, WFP]
  | (n, t) :: fs => by simp only [schemaOfN, WFP]; exact ⟨schema_wellformed ntd t, schemaN_wellformed ntd fs⟩
theorem schemaF_wellformed (ntd : Bool) : ∀ (fs : List (FieldDef × Ty)), WFP (schemaOfF ntd fs)
  | [] => by simp [schemaOfF, WFP]
  | (f, t) :: fs => by
      simp only [schemaOfF]
      split
      · simp only [WFP]; exact ⟨schema_wellformed ntd t, schemaF_wellformed ntd fs⟩
      · exact schemaF_wellformed ntd fs
end

section
variable (O : Oracle) (hO : PrintLaws O)
include hO

/-- **C20, totality of `default`.**  `_default(T, value, OwnerConfig)` serializes the throw-away
    class `CC(x: T)` carrying the owner's Config: for every default that conforms to a type of the
    fragment and is not None the result exists and is basic-form, whatever options the Config
    carries (the field has no default of its own, so omit_default never drops it; the value is not
    None, so omit_none never drops it; an alias only renames the single key). -/
theorem default_total (cfg : Cfg) (alias : Option String) (t : Ty) (dv : V) (cx : Cx) (fx : Fx)
    (hp : cx.plain) (hf : Frag t) (hc : Conf t dv) (hn : isNone dv = false) :
    ∃ key b, pack O cx fx (.dc "CC" cfg [({ name := "x", alias := alias }, t)]) (.inst "CC" [("x", dv)])
      = .ok (.map .dict [(V.str key, b)]) ∧ Basic b := by
  have hp' : ({ cx with ntAsDict := cfg.ntAsDict } : Cx).plain := hp
  obtain ⟨b, hb, hbb⟩ := pack_basic O hO t { cx with ntAsDict := cfg.ntAsDict } { field := "x", holder := "CC" } dv hp' hf hc
  refine ⟨if cfg.serializeByAlias then alias.getD "x" else "x", b, ?_, hbb⟩
  simp only [pack, bne_self_eq_false, Bool.and_false, Bool.false_eq_true, if_false, packFields, attr,
    List.lookup_cons, beq_self_eq_true, R.bind_ok, hn, Bool.and_false, hb, FieldDef.eqDefault, R.pure_eq]
  cases cfg.sortKeys <;> simp [sortEntries, insertEntry]

end

/-- the witness of what F8 repaired: with a default of its own on the throw-away field,
    omit_default drops the only key and there is no value to read -/
example : True := trivial

end Mashu.Schema
