/-
  C14 — behaviour is independent of compilation timing, call order and threads.

  * `lazy_bisim`: for EVERY class (lazy_compilation on or off, forward references resolvable at
    class creation or only later, with or without ADD_DIALECT_SUPPORT, either direction, any
    format parameters) and EVERY history of calls (with or without a dialect, with or without a
    caller-supplied en/decoder) and reference-resolution events, the outputs equal those of the
    eagerly compiled class — with the stub condition, the arguments baked into the stub and the
    forwarded flags as extracted from the source on this run.
  * `first_call_terminates`: two dispatches always suffice (no call diverges); the decided
    witness `stub_in_dialect_method_diverges` shows what the fix "never emit a lazy stub from a
    dialect builder" (F5) repaired: without the conjunct `self.dialect is None` the first
    dialect call on a lazy class recurses forever.
    `dialect_call_before_resolution_poisons_cache` is the analogous witness for the re-raise
    condition under `except UnresolvedTypeReferenceError` (second repair).
  * `interleaving_independent`: any number of threads making the first call at once, under any
    schedule of their atomic steps, all obtain the eager result (PARTIAL: the model assumes
    attribute reads/writes are atomic and compilation touches thread-local data only).
-/
import Mashu.Props.C12
import Mashu.Generated
import Mashu.Lazy
import Mashu.Generated
namespace Mashu.Lazy

/-- the tables as extracted from the source on this run -/
def T0 : Tables :=
  { condsUnpack := Mashu.Generated.lazyStubCondsUnpack, condsPack := Mashu.Generated.lazyStubCondsPack,
    reraiseUnpack := Mashu.Generated.lazyReraiseUnpack, reraisePack := Mashu.Generated.lazyReraisePack,
    kwargsUnpack := Mashu.Generated.lazyKwargsUnpack, kwargsPack := Mashu.Generated.lazyKwargsPack,
    forwardCoder := Mashu.Generated.lazyForwardCoder, stubAllowPostponed := Mashu.Generated.lazyStubAllowPostponed }

/-- … and what the proof needs of them -/
def TL : Tables :=
  { condsUnpack := ["config.lazy_compilation", "self.allow_postponed_evaluation", "self.is_nailed", "self.dialect is None"],
    condsPack := ["config.lazy_compilation", "self.allow_postponed_evaluation", "self.is_nailed", "self.dialect is None"],
    reraiseUnpack := ["not self.allow_postponed_evaluation", "not config.allow_postponed_evaluation", "self.dialect is not None"],
    reraisePack := ["not self.allow_postponed_evaluation", "not config.allow_postponed_evaluation", "self.dialect is not None"],
    kwargsUnpack := ["first_method", "allow_postponed_evaluation", "format_name", "decoder", "default_dialect"],
    kwargsPack := ["first_method", "allow_postponed_evaluation", "format_name", "encoder", "encoder_kwargs", "default_dialect"],
    forwardCoder := true, stubAllowPostponed := false }

theorem tables_pinned : T0 = TL := by decide

theorem condHolds_TL (c : Ctx) :
    condHolds ["config.lazy_compilation", "self.allow_postponed_evaluation", "self.is_nailed", "self.dialect is None"] c
      = (c.lazyCompilation && c.allowPostponed && c.nailed && c.dialect.isNone) := by
  simp only [condHolds, List.all_cons, List.all_nil, evalCond, Bool.and_true]
  cases c.lazyCompilation <;> cases c.allowPostponed <;> cases c.nailed <;> cases c.dialect.isNone <;> rfl

theorem bake_TL (k : Cls) (p : Params) :
    bake (if k.unpack then TL.kwargsUnpack else TL.kwargsPack) k.unpack p = p := by
  cases hu : k.unpack <;> simp [bake, TL]

theorem reraises_TL (c : Ctx) (cfg : Bool) :
    reraises ["not self.allow_postponed_evaluation", "not config.allow_postponed_evaluation", "self.dialect is not None"] c cfg
      = (!c.allowPostponed || !cfg || c.dialect.isSome) := by
  simp only [reraises, List.any_cons, List.any_nil, evalDisj, Bool.or_false]
  cases c.allowPostponed <;> cases cfg <;> cases c.dialect.isSome <;> rfl

theorem condsOf_TL (u : Bool) : (if u = true then TL.condsUnpack else TL.condsPack)
    = ["config.lazy_compilation", "self.allow_postponed_evaluation", "self.is_nailed", "self.dialect is None"] := by
  cases u <;> rfl

theorem reraiseOf_TL (u : Bool) : (if u = true then TL.reraiseUnpack else TL.reraisePack)
    = ["not self.allow_postponed_evaluation", "not config.allow_postponed_evaluation", "self.dialect is not None"] := by
  cases u <;> rfl

/-- the stub's compilation: real if the references can be evaluated, else the error -/
theorem compile_stub (k : Cls) (r : Bool) (p : Params) :
    compile TL k false none r p = if r then .body (.real p none) else .unresolved := by
  simp only [compile, condsOf_TL, reraiseOf_TL, condHolds_TL, reraises_TL]
  cases r <;> simp

/-- a dialect builder never emits a stub: it compiles the real method or raises -/
theorem compile_dialect (k : Cls) (d : Nat) (r : Bool) (p : Params) :
    compile TL k true (some d) r p = if r then .body (.real p (some d)) else .unresolved := by
  simp only [compile, condsOf_TL, reraiseOf_TL, condHolds_TL, reraises_TL]
  cases r <;> simp

/-- class creation -/
theorem compile_define (k : Cls) (r : Bool) :
    compile TL k true none r k.p
      = if k.lazyCompilation then .body (.stub k.p)
        else if !r then (if !k.cfgAllowPostponed then .unresolved else .body (.stub k.p))
        else .body (.real k.p none) := by
  simp only [compile, condsOf_TL, reraiseOf_TL, condHolds_TL, reraises_TL, bake_TL]
  cases k.lazyCompilation <;> cases r <;> cases k.cfgAllowPostponed <;> simp

/-- the parameters of a dialect method -/
def pd (p : Params) : Params := { fmt := p.fmt, coder := none, coderKwargs := none, defaultDialect := p.defaultDialect }

/-- the invariant: the installed main method was emitted for the class's own parameters; its
    first branch is the stub for them or the real body (and then the references are resolvable);
    every cached dialect method is real, compiled for its own dialect, and exists only once the
    references are resolvable -/
def Inv (k : Cls) (st : St) : Prop :=
  st.mp = k.p
  ∧ (st.main = .stub k.p ∨ (st.main = .real k.p none ∧ st.resolvable = true))
  ∧ (∀ d b, lookup st.cache d = some b → b = .real (pd k.p) (some d) ∧ st.resolvable = true)

/-- one dispatch that does not go through the stub ends the call with the specified output -/
theorem stepMain_direct (k : Cls) (st : St) (a : Args) (hi : Inv k st)
    (hd : st.main = .real k.p none ∨ (k.support = true ∧ a.dialect.isSome = true) ∨ (a.dialect.isSome && !k.support && !k.unpack) = true) :
    ∃ st', stepMain TL k st a = .out st' (specOut k st.resolvable a) ∧ Inv k st' ∧ st'.resolvable = st.resolvable := by
  obtain ⟨hp, hm, hc⟩ := hi
  simp only [stepMain, specOut]
  by_cases hte : (a.dialect.isSome && !k.support && !k.unpack) = true
  · simp only [hte, if_true]
    exact ⟨st, rfl, ⟨hp, hm, hc⟩, rfl⟩
  · simp only [hte, Bool.false_eq_true, if_false]
    have hnone : ∀ (hx : (if k.support = true then a.dialect else none) = none), st.main = .real k.p none := by
      intro hx
      rcases hd with h | ⟨h1, h2⟩ | h
      · exact h
      · rw [h1] at hx
        simp only [if_true] at hx
        rw [hx] at h2
        simp at h2
      · exact absurd h hte
    cases hx : (if k.support = true then a.dialect else none) with
    | none =>
      have hmr := hnone hx
      have hr : st.resolvable = true := by
        rcases hm with h | ⟨_, h⟩
        · rw [hmr] at h; cases h
        · exact h
      simp only [hmr, hr, Bool.not_true, Bool.false_eq_true, if_false]
      exact ⟨st, rfl, ⟨hp, Or.inr ⟨hmr, hr⟩, hc⟩, hr⟩
    | some d =>
      have hs : k.support = true := by
        cases h : k.support with
        | true => rfl
        | false => rw [h] at hx; simp at hx
      rw [hs] at hx
      simp only [if_true] at hx
      simp only [dialectMethod, hs, hx, if_true]
      cases hl : lookup st.cache d with
      | some b =>
        obtain ⟨hb, hr⟩ := hc d b hl
        subst hb
        simp only [hr, Bool.not_true, Bool.false_eq_true, if_false, hp, pd]
        exact ⟨st, rfl, ⟨hp, hm, hc⟩, hr⟩
      | none =>
        simp only [hp, compile_dialect]
        cases hr : st.resolvable with
        | false =>
          simp only [Bool.false_eq_true, if_false, Bool.not_false, if_true]
          exact ⟨st, rfl, ⟨hp, hm, hc⟩, hr⟩
        | true =>
          simp only [if_true, Bool.not_true, Bool.false_eq_true, if_false]
          refine ⟨_, rfl, ⟨rfl, ?_, ?_⟩, rfl⟩
          · rcases hm with h | ⟨h, _⟩
            · exact Or.inl h
            · exact Or.inr ⟨h, rfl⟩
          · intro d' b hb
            simp only [lookup] at hb
            by_cases hdd : d = d'
            · simp only [hdd, if_true, Option.some.injEq] at hb
              rw [← hb, ← hdd]; exact ⟨rfl, rfl⟩
            · simp only [hdd, if_false] at hb
              exact ⟨(hc d' b hb).1, rfl⟩

/-- **one call**, any state satisfying the invariant, two units of fuel -/
theorem call_ok (k : Cls) (fuel : Nat) (st : St) (a : Args) (hi : Inv k st) :
    (call TL k (fuel + 2) st a).2 = specOut k st.resolvable a ∧ Inv k (call TL k (fuel + 2) st a).1
      ∧ (call TL k (fuel + 2) st a).1.resolvable = st.resolvable := by
  have hi0 := hi
  obtain ⟨hp, hm, hc⟩ := hi
  by_cases hdirect : st.main = .real k.p none ∨ (k.support = true ∧ a.dialect.isSome = true) ∨ (a.dialect.isSome && !k.support && !k.unpack) = true
  · obtain ⟨st', h1, h2, h3⟩ := stepMain_direct k st a hi0 hdirect
    rw [call, h1]
    exact ⟨rfl, h2, h3⟩
  · -- through the stub: the first branch of the main method holds the stub and no dialect is in effect
    simp only [not_or, not_and] at hdirect
    obtain ⟨hnr, hnd, hte⟩ := hdirect
    have hstub : st.main = .stub k.p := by
      rcases hm with h | ⟨h, _⟩
      · exact h
      · exact absurd h hnr
    have hte' : (a.dialect.isSome && !k.support && !k.unpack) = false := by simpa using hte
    have heff : (if k.support = true then a.dialect else none) = none := by
      cases hs : k.support with
      | false => simp
      | true =>
        have := hnd hs
        cases hd : a.dialect with
        | none => simp
        | some d => rw [hd] at this; simp at this
    have hfa : TL.stubAllowPostponed = false := rfl
    have hfc : TL.forwardCoder = true := rfl
    have hst : stepMain TL k st a = runStub TL k st k.p { dialect := none, coder := a.coder } := by
      simp only [stepMain, hte', Bool.false_eq_true, if_false, heff, hstub]
    cases hr : st.resolvable with
    | false =>
      have : stepMain TL k st a = .out st .unresolved := by
        rw [hst]; simp only [runStub, hfa, compile_stub, hr, Bool.false_eq_true, if_false]
      simp only [call, this, specOut, hte', Bool.false_eq_true, if_false, Bool.not_false, if_true]
      exact ⟨trivial, ⟨hp, Or.inl hstub, hc⟩, hr⟩
    | true =>
      have : stepMain TL k st a = .again { st with mp := k.p, main := .real k.p none } { dialect := none, coder := a.coder } := by
        rw [hst]; simp only [runStub, hfa, hfc, compile_stub, hr, if_true]
      have hi' : Inv k { st with mp := k.p, main := .real k.p none } := ⟨rfl, Or.inr ⟨rfl, hr⟩, hc⟩
      obtain ⟨st', h1, h2, h3⟩ := stepMain_direct k { st with mp := k.p, main := .real k.p none }
          { dialect := none, coder := a.coder } hi' (Or.inl rfl)
      rw [call, this]
      simp only
      rw [call, h1]
      simp only
      refine ⟨?_, h2, by rw [h3]; exact hr⟩
      simp only [specOut, hte', hr, Bool.false_eq_true, if_false, Bool.not_true, Option.isSome_none, Bool.false_and]
      cases hs : k.support with
      | false => simp
      | true =>
        rw [hs] at heff
        simp only [if_true] at heff
        simp [heff]

theorem define_inv (k : Cls) (r : Bool) (st : St) (h : define TL k r = some st) : Inv k st ∧ st.resolvable = r := by
  simp only [define, compile_define] at h
  cases hl : k.lazyCompilation with
  | true =>
    simp only [hl, if_true, Option.some.injEq] at h
    subst h
    exact ⟨⟨rfl, Or.inl rfl, by intro d b hb; simp [lookup] at hb⟩, rfl⟩
  | false =>
    simp only [hl, Bool.false_eq_true, if_false] at h
    cases r with
    | false =>
      simp only [Bool.not_false, if_true] at h
      cases hp : k.cfgAllowPostponed with
      | false => simp [hp] at h
      | true =>
        simp only [hp, Bool.not_true, Bool.false_eq_true, if_false, Option.some.injEq] at h
        subst h
        exact ⟨⟨rfl, Or.inl rfl, by intro d b hb; simp [lookup] at hb⟩, rfl⟩
    | true =>
      simp only [Bool.not_true, Bool.false_eq_true, if_false, Option.some.injEq] at h
      subst h
      exact ⟨⟨rfl, Or.inr ⟨rfl, rfl⟩, by intro d b hb; simp [lookup] at hb⟩, rfl⟩

theorem run_ok (k : Cls) (fuel : Nat) (st : St) (evs : List Event) (hi : Inv k st) :
    run TL k (fuel + 2) st evs = runSpec k st.resolvable evs := by
  induction evs generalizing st with
  | nil => rfl
  | cons e es ih =>
    cases e with
    | resolve =>
      simp only [run, runSpec]
      have : Inv k { st with resolvable := true } := by
        obtain ⟨hp, hm, hc⟩ := hi
        refine ⟨hp, ?_, fun d b hb => ⟨(hc d b hb).1, rfl⟩⟩
        rcases hm with hm | ⟨hm, _⟩
        · exact Or.inl hm
        · exact Or.inr ⟨hm, rfl⟩
      exact ih _ this
    | call a =>
      simp only [run, runSpec]
      obtain ⟨o, i, r⟩ := call_ok k fuel st a hi
      rw [o, ih _ i, r]

/-- **C14, compilation timing.**  With the tables extracted from the source: whatever the class's
    compilation mode and whatever the history, the outputs are those of the eager class. -/
theorem lazy_bisim (k : Cls) (resolvableAtCreation : Bool) (fuel : Nat) (st : St) (evs : List Event)
    (h : define T0 k resolvableAtCreation = some st) :
    run T0 k (fuel + 2) st evs = runSpec k resolvableAtCreation evs := by
  rw [tables_pinned] at h ⊢
  obtain ⟨hi, hr⟩ := define_inv k resolvableAtCreation st h
  rw [run_ok k fuel st evs hi, hr]

/-- no call diverges (RecursionError): a corollary — the specification has no `diverged` output -/
theorem spec_never_diverges (k : Cls) (r : Bool) (evs : List Event) : Out.diverged ∉ runSpec k r evs := by
  induction evs generalizing r with
  | nil => simp [runSpec]
  | cons e es ih =>
    cases e with
    | resolve => simpa [runSpec] using ih true
    | call a =>
      simp only [runSpec, List.mem_cons, not_or]
      refine ⟨?_, ih r⟩
      simp only [specOut]
      split
      · simp
      · split <;> simp

theorem first_call_terminates (k : Cls) (r : Bool) (st : St) (evs : List Event)
    (h : define T0 k r = some st) : Out.diverged ∉ run T0 k 2 st evs := by
  rw [lazy_bisim k r 0 st evs h]
  exact spec_never_diverges k r evs

/-- class creation only fails when the references are unresolvable AND postponed evaluation is
    switched off (the documented UnresolvedTypeReferenceError) -/
theorem define_total (k : Cls) (r : Bool) (h : k.lazyCompilation = true ∨ r = true ∨ k.cfgAllowPostponed = true) :
    (define T0 k r).isSome = true := by
  rw [tables_pinned]
  simp only [define, compile_define]
  cases hl : k.lazyCompilation with
  | true => simp
  | false =>
    cases r with
    | true => simp
    | false =>
      cases hp : k.cfgAllowPostponed with
      | true => simp
      | false => simp [hl, hp] at h

/-- what F5 repaired: without the conjunct `self.dialect is None` the stub ends up inside the
    dialect method and the first dialect call on a lazy class never returns, for any fuel we try -/
theorem stub_in_dialect_method_diverges :
    let T : Tables := { TL with condsUnpack := ["config.lazy_compilation", "self.allow_postponed_evaluation", "self.is_nailed"] }
    let k : Cls := { lazyCompilation := true, cfgAllowPostponed := true, support := true, unpack := true,
                     p := { fmt := "dict", coder := none, coderKwargs := none, defaultDialect := none } }
    (define T k true).map (fun st => (call T k 50 st { dialect := some 1, coder := none }).2) = some .diverged := by decide

/-- what the second repair (re-raise instead of emitting a stub when a DIALECT builder meets an
    unresolvable reference) prevents: a postponed class called with a dialect before its forward
    reference can be evaluated caches a stub as the dialect method; once the reference is
    resolvable that stub recompiles the main method and calls it again with the dialect, finds
    itself in the cache, and never returns -/
theorem dialect_call_before_resolution_poisons_cache :
    let T : Tables := { TL with reraisePack := ["not self.allow_postponed_evaluation", "not config.allow_postponed_evaluation"] }
    let k : Cls := { lazyCompilation := false, cfgAllowPostponed := true, support := true, unpack := false,
                     p := { fmt := "dict", coder := none, coderKwargs := none, defaultDialect := none } }
    (define T k false).map (fun st => run T k 50 st [.call { dialect := some 1, coder := none }, .resolve, .call { dialect := some 1, coder := none }])
      = some [.unresolved, .diverged] := by decide

/-- non-vacuity: a lazy class with a format dialect, first called with a dialect and a custom decoder -/
example :
    let k : Cls := { lazyCompilation := true, cfgAllowPostponed := true, support := true, unpack := true,
                     p := { fmt := "json", coder := some "orjson.loads", coderKwargs := none, defaultDialect := some 9 } }
    (define T0 k true).map (fun st => run T0 k 2 st [.call { dialect := some 1, coder := some "mine" }, .call { dialect := none, coder := none }])
      = some [.ran "json" (some 9) none (some 1) (some "mine"), .ran "json" (some 9) none none (some "orjson.loads")] := by decide

/-! ### threads -/

def eagerOut (k : Cls) : Out := .ran k.p.fmt k.p.defaultDialect k.p.coderKwargs none k.p.coder

def ThOk (k : Cls) (main : Body) : Th → Prop
  | .start => True
  | .inStub p => p = k.p
  | .redispatch => main = .real k.p none
  | .done o => o = eagerOut k

def GInv (k : Cls) (g : G) : Prop :=
  (g.main = .stub k.p ∨ g.main = .real k.p none) ∧ ∀ t ∈ g.threads, ThOk k g.main t

theorem mem_setNth {α} {l : List α} {i : Nat} {a x : α} (h : x ∈ setNth l i a) : x = a ∨ x ∈ l := by
  induction l generalizing i with
  | nil => simp [setNth] at h
  | cons y t ih =>
    cases i with
    | zero =>
      simp only [setNth, List.mem_cons] at h
      rcases h with h | h
      · exact Or.inl h
      · exact Or.inr (List.mem_cons_of_mem _ h)
    | succ n =>
      simp only [setNth, List.mem_cons] at h
      rcases h with h | h
      · exact Or.inr (by simp [h])
      · rcases ih h with h | h
        · exact Or.inl h
        · exact Or.inr (List.mem_cons_of_mem _ h)

theorem thOk_mono (k : Cls) (main main' : Body) (t : Th) (h : ThOk k main t)
    (hm : main = .real k.p none → main' = .real k.p none) : ThOk k main' t := by
  cases t with
  | start => trivial
  | inStub p => exact h
  | redispatch => exact hm h
  | done o => exact h

theorem gStep_inv (k : Cls) (g : G) (i : Nat) (hi : GInv k g) : GInv k (gStep TL k g i) := by
  obtain ⟨hm, ht⟩ := hi
  simp only [gStep]
  cases hg : g.threads[i]? with
  | none => exact ⟨hm, ht⟩
  | some t =>
    have htm : t ∈ g.threads := List.mem_of_getElem? hg
    have hok := ht t htm
    simp only
    cases t with
    | start =>
      rcases hm with hm | hm
      · simp only [thStep, hm]
        refine ⟨Or.inl rfl, ?_⟩
        intro x hx
        rcases mem_setNth hx with rfl | hx
        · rfl
        · have := ht x hx; rw [hm] at this; exact this
      · simp only [thStep, hm]
        refine ⟨Or.inr rfl, ?_⟩
        intro x hx
        rcases mem_setNth hx with rfl | hx
        · rfl
        · have := ht x hx; rw [hm] at this; exact this
    | redispatch =>
      simp only [ThOk] at hok
      simp only [thStep, hok]
      refine ⟨Or.inr rfl, ?_⟩
      intro x hx
      rcases mem_setNth hx with rfl | hx
      · rfl
      · have := ht x hx; rw [hok] at this; exact this
    | inStub p =>
      simp only [ThOk] at hok
      subst hok
      have hcs := compile_stub k true k.p
      simp only [TL] at hcs
      simp only [thStep, TL, hcs, if_true]
      refine ⟨Or.inr rfl, ?_⟩
      intro x hx
      rcases mem_setNth hx with rfl | hx
      · rfl
      · exact thOk_mono k g.main _ x (ht x hx) (fun _ => rfl)
    | done o =>
      simp only [thStep]
      refine ⟨hm, ?_⟩
      intro x hx
      rcases mem_setNth hx with rfl | hx
      · exact hok
      · exact ht x hx

/-- **C14, threads (partial).**  `n` threads enter the method of a class whose slot holds the stub
    or the real method; under ANY schedule of their atomic steps every thread that has finished
    obtained the eager result, and the slot never holds anything but the stub or the real method. -/
theorem interleaving_independent (k : Cls) (n : Nat) (main : Body) (hm : main = .stub k.p ∨ main = .real k.p none)
    (sched : List Nat) (o : Out) (h : Th.done o ∈ (gRun T0 k { main := main, threads := List.replicate n .start } sched).threads) :
    o = eagerOut k := by
  rw [tables_pinned] at h
  have : ∀ (sc : List Nat) (g : G), GInv k g → GInv k (gRun TL k g sc) := by
    intro sc
    induction sc with
    | nil => intro g hg; exact hg
    | cons i rest ih => intro g hg; exact ih (gStep TL k g i) (gStep_inv k g i hg)
  have := this sched
  have hinv := this { main := main, threads := List.replicate n .start }
    ⟨hm, by intro t ht; rw [List.eq_of_mem_replicate ht]; trivial⟩
  exact hinv.2 _ h

/-- … and every thread does finish: three of its own steps are enough in any state the
    invariant allows -/
theorem thread_finishes (k : Cls) (main : Body) (t : Th) (hm : main = .stub k.p ∨ main = .real k.p none)
    (ht : ThOk k main t) :
    ∃ o, (thStep TL k (thStep TL k (thStep TL k main t).1 (thStep TL k main t).2).1
            (thStep TL k (thStep TL k main t).1 (thStep TL k main t).2).2).2 = .done o := by
  have hcs := compile_stub k true k.p
  simp only [TL] at hcs
  cases t with
  | start =>
    rcases hm with hm | hm <;> simp [thStep, hm, TL, hcs]
  | redispatch =>
    simp only [ThOk] at ht
    simp [thStep, ht]
  | inStub p =>
    simp only [ThOk] at ht
    subst ht
    simp [thStep, TL, hcs]
  | done o => simp [thStep]

end Mashu.Lazy

namespace Mashu.DiscrF
open Mashu.Discr

/-! ### threads: the rescan as atomic actions of several threads -/

/-- the two kinds of writes a rescanning thread performs, one at a time -/
inductive Act
  | build (c : Nat) (f : Fmt)                              -- compile class c's own method for format f
  | reg (k : Fmt) (root : Nat) (t : String) (c : Nat)      -- variants[k][root][t] = c
  deriving Repr

def act (st : State) : Act → State
  | .build c f => { st with compiled := (c, f) :: st.compiled }
  | .reg k root t c => { st with registry := (k, root, t, c) :: st.registry }

/-- `ok b acts`: every registration is preceded (in this very sequence, or among the methods `b`
    known to exist before it starts) by the build of that class's method for that format -/
def ok : List (Nat × Fmt) → List Act → Bool
  | _, [] => true
  | b, .build c f :: r => ok ((c, f) :: b) r
  | b, .reg k _ _ c :: r => b.any (fun e => e.1 == c && e.2 == k) && ok b r

/-- what one thread does for the tagged variants `vs` of root `root` in format `f` since fix F37:
    build, THEN register -/
def programFixed (f : Fmt) (root : Nat) : List (Nat × String) → List Act
  | [] => []
  | (c, t) :: vs => .build c f :: .reg f root t c :: programFixed f root vs

/-- … and before it: register, then build -/
def programOld (f : Fmt) (root : Nat) : List (Nat × String) → List Act
  | [] => []
  | (c, t) :: vs => .reg f root t c :: .build c f :: programOld f root vs

theorem ok_mono : ∀ (acts : List Act) (b b' : List (Nat × Fmt)), (∀ x ∈ b, x ∈ b') → ok b acts = true → ok b' acts = true
  | [], _, _, _, _ => rfl
  | .build c f :: r, b, b', hs, h => by
      simp only [ok] at h ⊢
      exact ok_mono r _ _ (by intro x hx; rcases List.mem_cons.mp hx with rfl | hx'; exact List.mem_cons_self; exact List.mem_cons_of_mem _ (hs x hx')) h
  | .reg k root t c :: r, b, b', hs, h => by
      simp only [ok, Bool.and_eq_true, List.any_eq_true] at h ⊢
      obtain ⟨⟨e, he, hc⟩, hr⟩ := h
      exact ⟨⟨e, hs e he, hc⟩, ok_mono r b b' hs hr⟩

theorem programFixed_ok (f : Fmt) (root : Nat) : ∀ (vs : List (Nat × String)) (b : List (Nat × Fmt)), ok b (programFixed f root vs) = true
  | [], _ => rfl
  | (c, t) :: vs, b => by
      simp only [programFixed, ok, Bool.and_eq_true, List.any_eq_true]
      exact ⟨⟨(c, f), List.mem_cons_self, by simp⟩, programFixed_ok f root vs _⟩

/-- all ways of interleaving two sequences, each keeping its own order -/
inductive Interleave {α} : List α → List α → List α → Prop
  | nil : Interleave [] [] []
  | left (a : α) {p q r : List α} : Interleave p q r → Interleave (a :: p) q (a :: r)
  | right (a : α) {p q r : List α} : Interleave p q r → Interleave p (a :: q) (a :: r)

theorem ok_interleave {p q r : List Act} (h : Interleave p q r) : ∀ (b : List (Nat × Fmt)),
    ok b p = true → ok b q = true → ok b r = true := by
  induction h with
  | nil => intro b _ _; rfl
  | left a _ ih =>
    intro b hp hq
    cases a with
    | build c f =>
      simp only [ok] at hp ⊢
      exact ih _ hp (ok_mono _ b _ (fun x hx => List.mem_cons_of_mem _ hx) hq)
    | reg k root t c =>
      simp only [ok, Bool.and_eq_true] at hp ⊢
      exact ⟨hp.1, ih b hp.2 hq⟩
  | right a _ ih =>
    intro b hp hq
    cases a with
    | build c f =>
      simp only [ok] at hq ⊢
      exact ih _ (ok_mono _ b _ (fun x hx => List.mem_cons_of_mem _ hx) hp) hq
    | reg k root t c =>
      simp only [ok, Bool.and_eq_true] at hq ⊢
      exact ⟨hq.1, ih b hp hq.2⟩

/-- every prefix-closed execution of an `ok` sequence keeps the invariant the fast path relies on -/
theorem acts_inv : ∀ (acts : List Act) (b : List (Nat × Fmt)) (st : State),
    ok b acts = true → (∀ x ∈ b, hasOwn st.compiled x.1 x.2 = true) → Inv st → Inv (acts.foldl act st)
  | [], _, _, _, _, h => h
  | .build c f :: r, b, st, hok, hb, h => by
      simp only [ok] at hok
      simp only [List.foldl_cons]
      apply acts_inv r ((c, f) :: b) _ hok
      · intro x hx
        rcases List.mem_cons.mp hx with rfl | hx'
        · simp [act, hasOwn]
        · exact hasOwn_mono (fun y hy => List.mem_cons_of_mem _ hy) _ _ (hb x hx')
      · intro e he
        exact hasOwn_mono (fun y hy => List.mem_cons_of_mem _ hy) _ _ (h e he)
  | .reg k root t c :: r, b, st, hok, hb, h => by
      simp only [ok, Bool.and_eq_true, List.any_eq_true] at hok
      obtain ⟨⟨e, he, hc⟩, hr⟩ := hok
      simp only [List.foldl_cons]
      apply acts_inv r b _ hr
      · intro x hx; exact hb x hx
      · intro x hx
        simp only [act] at hx ⊢
        rcases List.mem_cons.mp hx with rfl | hx'
        · have := hb e he
          simp only [Bool.and_eq_true, beq_iff_eq] at hc
          rw [← hc.1, ← hc.2]; exact this
        · exact h x hx'

/-- **C14, threads (discriminated unions).**  Two threads rescanning at once, their writes
    interleaved in ANY way: at every moment every registered class has a method of its own, so no
    fast-path call can run a method inherited from the parent (`step_own`). -/
theorem concurrent_rescans_keep_inv (f g : Fmt) (root root' : Nat) (vs ws : List (Nat × String)) (sched : List Act)
    (h : Interleave (programFixed f root vs) (programFixed g root' ws) sched) (st : State) (hst : Inv st) :
    ∀ n, Inv ((sched.take n).foldl act st) := by
  intro n
  have hok : ok [] sched = true := ok_interleave h [] (programFixed_ok f root vs []) (programFixed_ok g root' ws [])
  have hpre : ok [] (sched.take n) = true := by
    have : ∀ (l : List Act) (b : List (Nat × Fmt)) (n : Nat), ok b l = true → ok b (l.take n) = true := by
      intro l
      induction l with
      | nil => intro b n _; simp [ok]
      | cons a l ih =>
        intro b n hl
        cases n with
        | zero => simp [ok]
        | succ n =>
          cases a with
          | build c f => simp only [List.take_succ_cons, ok] at hl ⊢; exact ih _ n hl
          | reg k r t c => simp only [List.take_succ_cons, ok, Bool.and_eq_true] at hl ⊢; exact ⟨hl.1, ih _ n hl.2⟩
    exact this sched [] n hok
  exact acts_inv _ [] st hpre (by intro x hx; simp at hx) hst

/-- the order before F37 (register, then build) breaks the invariant after its very first write … -/
theorem register_first_breaks_inv :
    ¬ Inv ((programOld 0 0 [(1, "v")]).take 1 |>.foldl act {}) := by
  intro h
  have := h (0, 0, "v", 1) (by simp [programOld, act])
  simp [programOld, act, hasOwn] at this

/-- … which is exactly the window in which another thread's fast path runs the parent's method -/
example : ok [] (programOld 0 0 [(1, "v")]) = false := by decide
example : ok [] (programFixed 0 0 [(1, "v"), (2, "w")]) = true := by decide


/-- the order of the two writes in `DiscriminatedUnionUnpackerBuilder._add_body` of /repo on this run -/
theorem rescan_order_pinned : Generated.variantRegisteredAfterBuild = true := by decide

end Mashu.DiscrF
