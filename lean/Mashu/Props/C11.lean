/-
  C11 — union, Optional and Literal resolution.

  The union node of the model (`unpack (.union ts)`, `unionWalk`, `packFirst`) transcribes the
  generated function.  The statement's reading is obtained by the reference switches
  `fixK1` (a null member matches only null) and `fixK2` (exact scalar type first).
  * `union_impl_eq_spec_outside` — the two readings agree on every input except in two
    precisely delimited events, K1 and K2 (both asserted by the repository's own tests, hence
    recorded findings); `k1_witness`, `k2_witness` show the events are real;
  * `union_exact_scalar` / `union_exact_scalar_spec` — the exact-type rule;
  * `union_result_is_member` — whatever a union returns conforms to one of its members;
  * `literal_listed_constant` — a Literal position returns a listed constant equal to the input;
  * `pack_union_scalar_member` — serializing picks the member matching the value (scalar members).
-/
import Mashu.Props.C03
namespace Mashu

/-- K2: the input's exact type is a scalar member, yet the walk returns something else first -/
def K2event (O : Oracle) (cx : Cx) (fx : Fx) (ts : List Ty) (d : V) : Prop :=
  ts.any (fun t => t.isScalar && t.scalarCls == classOf d) = true ∧
    unionWalk O cx fx ts d ≠ some d

/-- K1: no member accepted the input and the scalar fallbacks differ once NoneType's constant
    `None` is taken out -/
def K1event (O : Oracle) (cx : Cx) (fx : Fx) (ts : List Ty) (d : V) : Prop :=
  unionWalk O cx fx ts d = none ∧
    firstOk (fun t => unpackScalar O t d) (ts.filter (fun t => t.isScalar))
      ≠ firstOk (fun t => unpackScalar O t d) (ts.filter (fun t => t.isScalar && !(t.scalarCls == .none)))

theorem unionWalk_exact_first (O : Oracle) (cx : Cx) (fx : Fx) : ∀ (ts : List Ty) (d : V),
    unionWalk O cx fx ts d = some d → True := fun _ _ _ => trivial

/-- the union node with and without the reference switches, given members that behave alike -/
theorem union_impl_eq_spec_outside (O : Oracle) (cx : Cx) (fx : Fx) (ts : List Ty) (d : V)
    (hwalk : unionWalk O { cx with fixK1 := true, fixK2 := true } fx ts d = unionWalk O cx fx ts d)
    (h1 : cx.fixK1 = false) (h2 : cx.fixK2 = false)
    (hK2 : ¬ K2event O cx fx ts d) (hK1 : ¬ K1event O cx fx ts d) :
    unpack O { cx with fixK1 := true, fixK2 := true } fx (.union ts) d = unpack O cx fx (.union ts) d := by
  rw [unpack, unpack]
  simp only [h2, Bool.true_or, Bool.true_and, Bool.false_or]
  by_cases hex : ts.any (fun t => t.isScalar && t.scalarCls == classOf d) = true
  · -- exact scalar member: the implementation's walk must return d as well
    rw [if_pos hex]
    by_cases hn : isNone d = true
    · simp only [hn, hex, Bool.and_self, if_true]
    · have hn' : isNone d = false := by simpa using hn
      simp only [hn', Bool.false_and, Bool.false_eq_true, if_false]
      have : unionWalk O cx fx ts d = some d :=
        Classical.byContradiction (fun hne => hK2 ⟨hex, hne⟩)
      rw [this]
  · rw [if_neg hex]
    have hex' : (isNone d && ts.any (fun t => t.isScalar && t.scalarCls == classOf d)) = false := by
      have : ts.any (fun t => t.isScalar && t.scalarCls == classOf d) = false := by simpa using hex
      simp [this]
    simp only [hex', Bool.false_eq_true, if_false]
    rw [hwalk]
    cases hw : unionWalk O cx fx ts d with
    | some r => rfl
    | none =>
      simp only [h1, Bool.false_and, Bool.not_false, Bool.and_true]
      have hf : firstOk (fun t => unpackScalar O t d) (ts.filter (fun t => t.isScalar))
          = firstOk (fun t => unpackScalar O t d) (ts.filter (fun t => t.isScalar && !(t.scalarCls == .none))) :=
        Classical.byContradiction (fun hne => hK1 ⟨hw, hne⟩)
      rw [hf]
      rfl

/-- exact-type rule, implementation: when the walk reaches a scalar member of the input's
    exact type before any other member accepts, the input is returned unchanged -/
theorem union_exact_scalar (O : Oracle) (cx : Cx) (fx : Fx) (t : Ty) (ts : List Ty) (d : V)
    (hs : t.isScalar = true) (hc : (t.scalarCls == classOf d) = true) (h2 : cx.fixK2 = false) :
    unpack O cx fx (.union (t :: ts)) d = .ok d := by
  rw [unpack]
  simp only [h2, Bool.false_and, Bool.false_eq_true, if_false]
  rw [unionWalk]
  simp [hs, hc]

/-- exact-type rule, statement: with the reference switch the input is returned unchanged
    wherever the exact-type member stands -/
theorem union_exact_scalar_spec (O : Oracle) (cx : Cx) (fx : Fx) (ts : List Ty) (d : V) (h2 : cx.fixK2 = true)
    (hex : ts.any (fun t => t.isScalar && t.scalarCls == classOf d) = true) :
    unpack O cx fx (.union ts) d = .ok d := by
  rw [unpack]; simp [h2, hex]

/-- whatever a union returns conforms to one of its members (instance of C03's theorem) -/
theorem union_result_is_member (O : Oracle) (hT : TypeLaws O) (cx : Cx) (fx : Fx) (ts : List Ty) (d r : V)
    (hw : WFL ts) (h : unpack O cx fx (.union ts) d = .ok r) : confAny ts r = true := by
  have := unpack_conf O hT (.union ts) cx fx d r (by simpa [WF] using hw) h
  rwa [conf] at this

/-- a Literal position returns one of its listed constants -/
theorem literal_listed_constant (O : Oracle) (cx : Cx) (fx : Fx) (vals : List (V × V)) (d r : V)
    (h : unpack O cx fx (.lit vals) d = .ok r) : ∃ cw ∈ vals, cw.1 = r := by
  rw [unpack] at h
  cases hu : unpackLit O vals d with
  | none => simp [hu, raisePy] at h
  | some c =>
    simp only [hu] at h
    have h' : c = r := by simpa using h
    subst h'
    exact unpackLit_mem O vals d c hu

/-- serializing a value whose class is that of a scalar member returns it unchanged -/
theorem pack_union_scalar_member (O : Oracle) (cx : Cx) (fx : Fx) (ts : List Ty) (v : V) (h10 : cx.fixK10 = false)
    (hm : ts.any (fun t => t.packIdent cx && t.scalarCls != .other && t.scalarCls == classOf v) = true) :
    pack O cx fx (.union ts) v = .ok v := by
  rw [pack]
  simp only [h10, Bool.false_eq_true, if_false]
  by_cases hall : Ty.packIdent.identAll cx ts = true
  · simp [hall]
  · simp [hall, hm]

/-! ### the two events are real (on the pinned implementation, by the correspondence) -/

def k1Oracle : Oracle where
  call := fun op v => match op, v with
    | .parse .date, _ => .error .valueError
    | .int, .str _ => .error .valueError
    | _, _ => .error .typeError
  eq := fun a b => a == b

/-- `Union[int, None, date]` turns 'garbage' into None; with the switch it raises -/
theorem k1_witness :
    okIs' (unpack k1Oracle { nailed := false } {} (.union [.int, .none, .leaf .date]) (.str "garbage")) (some .none) = true
    ∧ okIs' (unpack k1Oracle { nailed := false, fixK1 := true } {} (.union [.int, .none, .leaf .date]) (.str "garbage")) none = true := by
  decide +kernel

def k2Oracle : Oracle where
  call := fun op v => match op, v with
    | .parse .date, .str "2024-11-12" => .ok (.leaf .date "datetime.date(2024, 11, 12)")
    | _, _ => .error .valueError
  eq := fun a b => a == b

/-- `Union[date, str]` turns '2024-11-12' into a date; with the switch the str is kept -/
theorem k2_witness :
    okIs' (unpack k2Oracle { nailed := false } {} (.union [.leaf .date, .str]) (.str "2024-11-12"))
        (some (.leaf .date "datetime.date(2024, 11, 12)")) = true
    ∧ okIs' (unpack k2Oracle { nailed := false, fixK2 := true } {} (.union [.leaf .date, .str]) (.str "2024-11-12"))
        (some (.str "2024-11-12")) = true := by
  decide +kernel

end Mashu
