/-
  C16 — schema-supplied strings are data, never code.

  * `lex_repr` — for EVERY string s (any length, any code points incl. quotes, backslashes,
    newlines, control characters, non-printable and astral characters, lone surrogates) and
    whatever source text follows, CPython's literal lexer reads the literal `repr(s)` back as
    exactly s and stops exactly at its end: a string spliced with `!r` cannot change the
    token stream around it.
  * `all_sites_repr` — every splice site extracted from builder.py / pack.py / unpack.py on
    this run applies `repr` (table regenerated from the source).
  * `raw_splice_breaks` — what the pinned code did before the fix: pasting the raw text
    between quotes lets a quote in s end the literal early.
-/
import Mashu.Quote
import Mashu.Generated
namespace Mashu.Quote

theorem hexVal_hexDigit (n : Nat) (h : n < 16) : hexVal (hexDigit n) = some n := by
  have : n = 0 ∨ n = 1 ∨ n = 2 ∨ n = 3 ∨ n = 4 ∨ n = 5 ∨ n = 6 ∨ n = 7 ∨ n = 8 ∨ n = 9 ∨ n = 10 ∨ n = 11
      ∨ n = 12 ∨ n = 13 ∨ n = 14 ∨ n = 15 := by omega
  rcases this with h | h | h | h | h | h | h | h | h | h | h | h | h | h | h | h <;> subst h <;> decide

theorem hex2_digits (c : Nat) (h : c < 256) : hex2 (hexDigit (c / 16)) (hexDigit (c % 16)) = some c := by
  have h1 : c / 16 < 16 := by omega
  have h2 : c % 16 < 16 := by omega
  simp only [hex2, hexVal_hexDigit _ h1, hexVal_hexDigit _ h2, bind, Option.bind, pure]
  congr 1; omega

theorem hex4_digits (c : Nat) (h : c < 65536) :
    hex4 (hexDigit (c / 4096 % 16)) (hexDigit (c / 256 % 16)) (hexDigit (c / 16 % 16)) (hexDigit (c % 16)) = some c := by
  have e1 : hex2 (hexDigit (c / 4096 % 16)) (hexDigit (c / 256 % 16)) = some (c / 256) := by
    have := hex2_digits (c / 256) (by omega)
    have a : c / 256 / 16 = c / 4096 % 16 := by omega
    have b : c / 256 % 16 = c / 256 % 16 := rfl
    rw [a] at this; exact this
  have e2 : hex2 (hexDigit (c / 16 % 16)) (hexDigit (c % 16)) = some (c % 256) := by
    have := hex2_digits (c % 256) (by omega)
    have a : c % 256 / 16 = c / 16 % 16 := by omega
    have b : c % 256 % 16 = c % 16 := by omega
    rw [a, b] at this; exact this
  simp only [hex4, e1, e2, bind, Option.bind, pure]
  congr 1; omega

/-- the quote character is ' or " -/
def IsQuote (q : Nat) : Prop := q = 39 ∨ q = 34

/-- **one escape class at a time**: reading `escOne c` followed by anything yields c and then
    continues with what follows -/
theorem lex_escOne (pr : Nat → Bool) (q : Nat) (hq : IsQuote q) (c : Nat) (hc : c < 1114112)
    (n : Nat) (r : List Nat) :
    lexBody q (n + 1) (escOne pr q c ++ r) = (lexBody q n r).map (fun p => (c :: p.1, p.2)) := by
  have hq9 : q ≠ 92 := by rcases hq with h | h <;> omega
  have hq10 : q ≠ 10 := by rcases hq with h | h <;> omega
  unfold escOne
  by_cases h1 : c = q ∨ c = 92
  · rw [if_pos h1]
    rcases h1 with h | h
    · subst h
      rcases hq with h | h <;> subst h <;> simp [lexBody]
    · subst h; simp [lexBody, hq9.symm]
  · rw [if_neg h1]
    have hcq : c ≠ q := fun h => h1 (Or.inl h)
    have hc92 : c ≠ 92 := fun h => h1 (Or.inr h)
    by_cases h2 : c = 9
    · subst h2; simp [lexBody, hq9.symm]
    · rw [if_neg h2]
      by_cases h3 : c = 10
      · subst h3; simp [lexBody, hq9.symm]
      · rw [if_neg h3]
        by_cases h4 : c = 13
        · subst h4; simp [lexBody, hq9.symm]
        · rw [if_neg h4]
          by_cases h5 : c < 32 ∨ c = 127
          · rw [if_pos h5]
            have hx := hex2_digits c (by omega)
            simp [lexBody, hq9.symm, hx]
          · rw [if_neg h5]
            have plain : lexBody q (n + 1) ([c] ++ r) = (lexBody q n r).map (fun p => (c :: p.1, p.2)) := by
              simp [lexBody, hcq, h3, hc92]
            by_cases h6 : c < 127
            · rw [if_pos h6]; exact plain
            · rw [if_neg h6]
              by_cases h7 : pr c = true
              · rw [if_pos h7]; exact plain
              · rw [if_neg h7]
                by_cases h8 : c < 256
                · rw [if_pos h8]
                  have hx := hex2_digits c h8
                  simp [lexBody, hq9.symm, hx]
                · rw [if_neg h8]
                  by_cases h9 : c < 65536
                  · rw [if_pos h9]
                    have hx := hex4_digits c h9
                    simp [lexBody, hq9.symm, hx]
                  · rw [if_neg h9]
                    have hhi : hex4 (hexDigit (c / 268435456 % 16)) (hexDigit (c / 16777216 % 16))
                        (hexDigit (c / 1048576 % 16)) (hexDigit (c / 65536 % 16)) = some (c / 65536) := by
                      have := hex4_digits (c / 65536) (by omega)
                      have a : c / 65536 / 4096 % 16 = c / 268435456 % 16 := by omega
                      have b : c / 65536 / 256 % 16 = c / 16777216 % 16 := by omega
                      have d : c / 65536 / 16 % 16 = c / 1048576 % 16 := by omega
                      have e : c / 65536 % 16 = c / 65536 % 16 := rfl
                      rw [a, b, d] at this; exact this
                    have hlo : hex4 (hexDigit (c / 4096 % 16)) (hexDigit (c / 256 % 16)) (hexDigit (c / 16 % 16))
                        (hexDigit (c % 16)) = some (c % 65536) := by
                      have := hex4_digits (c % 65536) (by omega)
                      have a : c % 65536 / 4096 % 16 = c / 4096 % 16 := by omega
                      have b : c % 65536 / 256 % 16 = c / 256 % 16 := by omega
                      have d : c % 65536 / 16 % 16 = c / 16 % 16 := by omega
                      have e : c % 65536 % 16 = c % 16 := by omega
                      rw [a, b, d, e] at this; exact this
                    have hsum : c / 65536 * 65536 + c % 65536 = c := by omega
                    simp [lexBody, hq9.symm, hhi, hlo, hsum, hc]

/-- the body of `repr(s)` followed by the closing quote and arbitrary text -/
theorem lex_body_repr (pr : Nat → Bool) (q : Nat) (hq : IsQuote q) : ∀ (s : List Nat), (∀ c ∈ s, c < 1114112) →
    ∀ (n : Nat) (post : List Nat), s.length + 1 ≤ n →
    lexBody q n (s.flatMap (escOne pr q) ++ q :: post) = some (s, post)
  | [], _, n, post, hn => by
      obtain ⟨m, rfl⟩ : ∃ m, n = m + 1 := ⟨n - 1, by simp at hn; omega⟩
      simp [lexBody]
  | c :: s, hs, n, post, hn => by
      obtain ⟨m, rfl⟩ : ∃ m, n = m + 1 := ⟨n - 1, by simp at hn; omega⟩
      simp only [List.flatMap_cons, List.append_assoc]
      rw [lex_escOne pr q hq c (hs c (by simp)) m]
      rw [lex_body_repr pr q hq s (fun x hx => hs x (by simp [hx])) m post (by simp at hn ⊢; omega)]
      rfl

theorem chooseQuote_isQuote (s : List Nat) : IsQuote (chooseQuote s) := by
  unfold chooseQuote IsQuote
  split <;> simp

theorem escOne_length_pos (pr : Nat → Bool) (q c : Nat) : 1 ≤ (escOne pr q c).length := by
  unfold escOne
  repeat' split
  all_goals simp

theorem flatMap_length_ge (pr : Nat → Bool) (q : Nat) : ∀ (s : List Nat), s.length ≤ (s.flatMap (escOne pr q)).length
  | [] => by simp
  | c :: s => by
      simp only [List.flatMap_cons, List.length_append, List.length_cons]
      have := escOne_length_pos pr q c
      have := flatMap_length_ge pr q s
      omega

theorem escOne_head_ne_quote (pr : Nat → Bool) (q : Nat) (hq : IsQuote q) (c : Nat) :
    ∃ x xs, escOne pr q c = x :: xs ∧ x ≠ q := by
  have hq9 : q ≠ 92 := by rcases hq with h | h <;> omega
  unfold escOne
  by_cases h1 : c = q ∨ c = 92
  · rw [if_pos h1]; exact ⟨92, [c], rfl, fun h => hq9 h.symm⟩
  · rw [if_neg h1]
    have hcq : c ≠ q := fun h => h1 (Or.inl h)
    repeat' split
    all_goals first
      | exact ⟨92, _, rfl, fun h => hq9 h.symm⟩
      | exact ⟨c, [], rfl, hcq⟩

/-- **C16**: the literal `repr(s)` denotes exactly s and ends exactly where `repr(s)` ends, for
    every string s and every continuation of the source text (for the empty string the
    continuation must not begin with a quote character, which would open a triple-quoted
    literal; generated code continues with `,` `]` `:` or `)`). -/
theorem lex_repr (pr : Nat → Bool) (s : List Nat) (hs : ∀ c ∈ s, c < 1114112) (post : List Nat)
    (hpost : s = [] → post.head? ≠ some 39) :
    lexLit (pyRepr pr s ++ post) = some (s, post) := by
  unfold pyRepr lexLit
  simp only [List.cons_append, List.append_assoc, List.singleton_append]
  have hq := chooseQuote_isQuote s
  have hq' : chooseQuote s = 39 ∨ chooseQuote s = 34 := hq
  rw [if_pos hq']
  have hmain : lexBody (chooseQuote s)
      ((s.flatMap (escOne pr (chooseQuote s)) ++ chooseQuote s :: ([] ++ post)).length + 1)
      (s.flatMap (escOne pr (chooseQuote s)) ++ chooseQuote s :: ([] ++ post)) = some (s, post) := by
    apply lex_body_repr pr _ hq s hs
    have := flatMap_length_ge pr (chooseQuote s) s
    simp only [List.length_append, List.length_cons]
    omega
  -- no triple quote at the start
  cases s with
  | nil =>
    have hq0 : chooseQuote ([] : List Nat) = 39 := by decide
    simp only [List.flatMap_nil, List.nil_append] at hmain ⊢
    rw [hq0] at hmain ⊢
    cases post with
    | nil => exact hmain
    | cons p ps =>
      have hp : p ≠ 39 := by
        intro h; subst h; exact hpost rfl rfl
      simp only [hp, and_false, if_false]
      exact hmain
  | cons c s' =>
    obtain ⟨x, xs, hx, hne⟩ := escOne_head_ne_quote pr (chooseQuote (c :: s')) hq c
    simp only [List.flatMap_cons, hx, List.cons_append] at hmain ⊢
    generalize (xs ++ s'.flatMap (escOne pr (chooseQuote (c :: s'))) ++ chooseQuote (c :: s') :: ([] ++ post)) = T at hmain ⊢
    cases T with
    | nil => exact hmain
    | cons y ys =>
      simp only [hne, false_and, if_false]
      exact hmain

/-- corollary: the key is data — two strings give the same surrounding token stream and their
    own keys -/
theorem key_is_data (pr : Nat → Bool) (s₁ s₂ post : List Nat) (h₁ : ∀ c ∈ s₁, c < 1114112) (h₂ : ∀ c ∈ s₂, c < 1114112)
    (hp : post.head? ≠ some 39) :
    (lexLit (pyRepr pr s₁ ++ post)).map (·.2) = (lexLit (pyRepr pr s₂ ++ post)).map (·.2)
    ∧ (lexLit (pyRepr pr s₁ ++ post)).map (·.1) = some s₁ := by
  rw [lex_repr pr s₁ h₁ post (fun _ => hp), lex_repr pr s₂ h₂ post (fun _ => hp)]; simp

/-- every splice site of the current source applies repr -/
theorem all_sites_repr : Mashu.Generated.spliceSites.all (fun s => s.conv == "repr") = true := by
  decide

theorem sites_present : 10 ≤ Mashu.Generated.spliceSites.length := by decide

/-- raw splicing between single quotes (the pinned behaviour before the fix): the alias `a'b`
    ends the literal after `a` and leaves `b'` in the source text -/
theorem raw_splice_breaks :
    lexLit ([39] ++ [97, 39, 98] ++ [39] ++ [41]) = some ([97], [98, 39, 41]) := by decide

/-- non-vacuity of `lex_repr`: a string with both quotes, a backslash, a newline, U+0085
    (non-printable Latin-1), a lone surrogate and an astral non-printable character -/
example : lexLit (pyRepr (fun _ => false) [39, 34, 92, 10, 133, 55296, 917505] ++ [41])
    = some ([39, 34, 92, 10, 133, 55296, 917505], [41]) := by decide +kernel

end Mashu.Quote
