/-
  C08 — serialization options only project the plain output.

  `todict_is_projection`: for every option vector (resolved options × code-generation flags ×
  keyword arguments × sort_keys), every field list (aliased / nullable / defaulted / identity
  or converting packers / omitted) and every instance, the generated method — modelled branch
  for branch, kwargs-incremental and dict-literal bodies — returns exactly `project`.
  `resolve_order`: the option lookup order extracted from the source is
  call dialect > Config.dialect > Config > default dialect.
-/
import Mashu.ToDict
import Mashu.Generated
namespace Mashu.ToDict

/-- Python `==` against None -/
structure EqLaws (eq : PyEq) : Prop where
  right_none : ∀ x, eq x .none = isNone x
  left_none : ∀ x, eq .none x = isNone x

/-- an identity packer leaves the value as it is -/
def WFv (p : FieldS × FieldV) : Prop := p.1.identPacker = true → p.2.packed = p.2.raw

def projField (eq : PyEq) (e : Eff) (p : FieldS × FieldV) : List (String × V) :=
  let f := p.1
  let v := p.2
  let dropNone := e.omitNone && f.nullable && isNone v.raw
  let dropDefault := e.omitDefault && (match f.default with | some dv => eq v.raw dv | none => false)
  if dropNone || dropDefault then []
  else [(if e.byAlias then f.alias.getD f.name else f.name, plainVal f v)]

theorem project_eq (eq : PyEq) (e : Eff) (fvs : List (FieldS × FieldV)) :
    project eq e fvs =
      ((if e.sortKeys then sortByName fvs else fvs).filter (fun p => !p.1.skip)).flatMap (projField eq e) := rfl

set_option linter.unusedSimpArgs false

theorem keyOf_eq (b : Build) (kw : Kw) (f : FieldS) :
    keyOf b kw f = (if (effective b kw).byAlias then f.alias.getD f.name else f.name) := by
  obtain ⟨on, od, sba, onf, baf, sk⟩ := b
  obtain ⟨kon, kba⟩ := kw
  obtain ⟨name, alias, nullable, ident, dflt, skip⟩ := f
  simp only [keyOf, effective]
  cases alias <;> cases baf <;> cases kba <;> cases sba <;> simp

theorem isNone_iff (v : V) : isNone v = true ↔ v = .none := by
  cases v <;> simp [isNone]

theorem defaultIsNone_some (n : String) (a : Option String) (nu i : Bool) (dv : V) (sk : Bool) :
    defaultIsNone { name := n, alias := a, nullable := nu, identPacker := i, default := some dv, skip := sk } = isNone dv := by
  cases dv <;> rfl

theorem defaultIsNone_none (n : String) (a : Option String) (nu i : Bool) (sk : Bool) :
    defaultIsNone { name := n, alias := a, nullable := nu, identPacker := i, default := none, skip := sk } = false := rfl

theorem implField_eq (eq : PyEq) (he : EqLaws eq) (b : Build) (kw : Kw) (f : FieldS) (v : FieldV)
    (hw : f.identPacker = true → v.packed = v.raw) :
    implField eq b kw f v = projField eq (effective b kw) (f, v) := by
  have hr := he.right_none
  have hl := he.left_none
  simp only [implField, projField, setValue, keyOf_eq, plainVal]
  generalize hk : (if (effective b kw).byAlias = true then f.alias.getD f.name else f.name) = key
  obtain ⟨on, od, sba, onf, baf, sk⟩ := b
  obtain ⟨kon, kba⟩ := kw
  obtain ⟨name, alias, nullable, ident, dflt, skip⟩ := f
  obtain ⟨raw, packed⟩ := v
  simp only [effective, defaultIsNone_some, defaultIsNone_none] at *
  clear hk
  cases hrn : isNone raw with
  | true =>
    have hv : raw = .none := (isNone_iff _).mp hrn
    subst hv
    cases dflt with
    | none => cases nullable <;> cases ident <;> cases on <;> cases onf <;> cases od <;> cases kon <;> simp_all [defaultIsNone_some, defaultIsNone_none]
    | some dv =>
      have h1 := hl dv
      cases hdn : isNone dv with
      | true =>
        have hdv : dv = .none := (isNone_iff _).mp hdn
        subst hdv
        cases nullable <;> cases ident <;> cases on <;> cases onf <;> cases od <;> cases kon <;> simp_all [defaultIsNone_some, defaultIsNone_none]
      | false =>
        cases nullable <;> cases ident <;> cases on <;> cases onf <;> cases od <;> cases kon <;> simp_all [defaultIsNone_some, defaultIsNone_none]
  | false =>
    cases dflt with
    | none => cases nullable <;> cases ident <;> cases on <;> cases onf <;> cases od <;> cases kon <;> simp_all [defaultIsNone_some, defaultIsNone_none]
    | some dv =>
      have h2 := hr raw
      cases hdn : isNone dv with
      | true =>
        have hdv : dv = .none := (isNone_iff _).mp hdn
        subst hdv
        cases nullable <;> cases ident <;> cases on <;> cases onf <;> cases od <;> cases kon <;> simp_all [defaultIsNone_some, defaultIsNone_none]
      | false =>
        cases hev : eq raw dv <;> cases nullable <;> cases ident <;> cases on <;> cases onf <;> cases od <;> cases kon <;> simp_all [defaultIsNone_some, defaultIsNone_none]

theorem any_false_mem {α} {p : α → Bool} {xs : List α} (h : xs.any p = false) : ∀ x ∈ xs, p x = false := by
  intro x hx
  cases hp : p x with
  | false => rfl
  | true =>
    have : xs.any p = true := List.any_eq_true.mpr ⟨x, hx, hp⟩
    rw [h] at this; cases this

/-- the dict-literal body is the projection, under the conditions in which the builder emits it -/
theorem literalField_eq (eq : PyEq) (b : Build) (kw : Kw) (p : FieldS × FieldV) (hw : WFv p)
    (h1 : (p.1.nullable && !p.1.identPacker) = false)
    (h2 : p.1.nullable = true → b.omitNone = false ∧ b.omitNoneFeature = false)
    (h3 : b.byAliasFeature = true → p.1.alias = none)
    (h4 : b.omitDefault = false) :
    literalField b p.1 p.2 = projField eq (effective b kw) p := by
  obtain ⟨f, v⟩ := p
  simp only [WFv] at hw
  obtain ⟨on, od, sba, onf, baf, sk⟩ := b
  obtain ⟨kon, kba⟩ := kw
  obtain ⟨name, alias, nullable, ident, dflt, skip⟩ := f
  obtain ⟨raw, packed⟩ := v
  simp only [literalField, projField, plainVal, effective] at *
  subst h4
  cases hrn : isNone raw with
  | true =>
    have hv : raw = .none := (isNone_iff _).mp hrn
    subst hv
    cases nullable <;> cases ident <;> cases baf <;> cases on <;> cases onf <;> simp_all
  | false =>
    cases nullable <;> cases ident <;> cases baf <;> cases on <;> cases onf <;> simp_all

theorem flatMap_congr' {α β} (f g : α → List β) (xs : List α) (h : ∀ x ∈ xs, f x = g x) :
    xs.flatMap f = xs.flatMap g := by
  induction xs with
  | nil => rfl
  | cons x xs ih =>
    simp only [List.flatMap_cons]
    rw [h x (by simp), ih (fun y hy => h y (by simp [hy]))]

theorem mem_insertBy (p x : FieldS × FieldV) (xs : List (FieldS × FieldV)) :
    x ∈ insertBy p xs ↔ x = p ∨ x ∈ xs := by
  induction xs with
  | nil => simp [insertBy]
  | cons y ys ih =>
    simp only [insertBy]
    split
    · simp
    · simp [ih]; constructor
      · rintro (h | h | h) <;> simp [h]
      · rintro (h | h | h) <;> simp [h]

theorem mem_sortByName (x : FieldS × FieldV) (xs : List (FieldS × FieldV)) : x ∈ sortByName xs ↔ x ∈ xs := by
  induction xs with
  | nil => simp [sortByName]
  | cons y ys ih => simp [sortByName, mem_insertBy, ih]

/-- **C08**: for every option vector, schema and instance, `to_dict` is the projection of the
    plain output. -/
theorem todict_is_projection (eq : PyEq) (he : EqLaws eq) (b : Build) (kw : Kw) (fvs : List (FieldS × FieldV))
    (hw : ∀ p ∈ fvs, WFv p) :
    toDictImpl eq b kw fvs = project eq (effective b kw) fvs := by
  rw [project_eq]
  simp only [toDictImpl]
  have hsort : (effective b kw).sortKeys = b.sortKeys := rfl
  rw [hsort]
  generalize hfs : (if b.sortKeys = true then sortByName fvs else fvs) = gs
  have hwg : ∀ p ∈ gs, WFv p := by
    intro p hp
    subst hfs
    split at hp
    · exact hw p ((mem_sortByName p fvs).mp hp)
    · exact hw p hp
  by_cases hinc : incremental b (gs.map (·.1)) = true
  · rw [if_pos hinc]
    apply flatMap_congr'
    intro p hp
    exact implField_eq eq he b kw p.1 p.2 (hwg p (List.mem_filter.mp hp).1)
  · rw [if_neg hinc]
    apply flatMap_congr'
    intro p hp
    have hpm := List.mem_filter.mp hp
    have hinc' : incremental b (gs.map (·.1)) = false := by simpa using hinc
    simp only [incremental, Bool.or_eq_false_iff, Bool.and_eq_false_iff] at hinc'
    obtain ⟨⟨⟨hA, hB⟩, hC⟩, hD⟩ := hinc'
    have hlive : p.1 ∈ (gs.map (·.1)).filter (fun f => !f.skip) := by
      apply List.mem_filter.mpr
      exact ⟨List.mem_map_of_mem (f := fun q : FieldS × FieldV => q.1) hpm.1, hpm.2⟩
    apply literalField_eq eq b kw p (hwg p hpm.1)
    · exact any_false_mem hA p.1 hlive
    · intro hn
      rcases hB with hB | hB
      · have := any_false_mem hB p.1 hlive
        simp [hn] at this
      · simpa using hB
    · intro hbf
      rcases hC with hC | hC
      · simp [hbf] at hC
      · have := any_false_mem hC p.1 hlive
        cases ha : p.1.alias with
        | none => rfl
        | some a => simp [ha] at this
    · exact hD

/-- a keyword argument overrides a dialect overrides the class config overrides the format
    dialect: the lookup order extracted from `get_dialect_or_config_option` -/
theorem resolve_order : Mashu.Generated.optionLookupOrder = ["callDialect", "configDialect", "config", "defaultDialect"] := by
  decide

theorem resolve_call_first (s : Sources) (b : Bool) (h : s.callDialect = some b) :
    resolve Mashu.Generated.optionLookupOrder s = b := by
  rw [resolve_order]; simp [resolve, List.findSome?, Sources.get, h]

theorem resolve_cfgdialect_second (s : Sources) (b : Bool) (h0 : s.callDialect = none) (h : s.configDialect = some b) :
    resolve Mashu.Generated.optionLookupOrder s = b := by
  rw [resolve_order]; simp [resolve, List.findSome?, Sources.get, h0, h]

theorem resolve_config_third (s : Sources) (b : Bool) (h0 : s.callDialect = none) (h1 : s.configDialect = none)
    (h : s.config = some b) : resolve Mashu.Generated.optionLookupOrder s = b := by
  rw [resolve_order]; simp [resolve, List.findSome?, Sources.get, h0, h1, h]

/-- forwarding the public method's flags to the dialect-specific method is harmless exactly
    when the call dialect does not set the option (or the flag is passed explicitly) -/
theorem forwarded_eq_spec (order : List String) (sOn sBa : Sources) (p : Passed)
    (h1 : p.omitNone.isSome ∨ sOn.callDialect = none) (h2 : p.byAlias.isSome ∨ sBa.callDialect = none) :
    forwardedKw order sOn sBa p = specKw order sOn sBa p := by
  simp only [forwardedKw, specKw]
  have e1 : p.omitNone.getD (resolve order { sOn with callDialect := none }) = p.omitNone.getD (resolve order sOn) := by
    rcases h1 with h | h
    · obtain ⟨b, hb⟩ := Option.isSome_iff_exists.mp h; simp [hb]
    · have : ({ sOn with callDialect := none } : Sources) = sOn := by cases sOn; simp_all
      rw [this]
  have e2 : p.byAlias.getD (resolve order { sBa with callDialect := none }) = p.byAlias.getD (resolve order sBa) := by
    rcases h2 with h | h
    · obtain ⟨b, hb⟩ := Option.isSome_iff_exists.mp h; simp [hb]
    · have : ({ sBa with callDialect := none } : Sources) = sBa := by cases sBa; simp_all
      rw [this]
  rw [e1, e2]

/-- … and it is NOT harmless otherwise: a dialect passed to the call that sets omit_none is
    overridden by the class default when TO_DICT_ADD_OMIT_NONE_FLAG is on (finding K13) -/
theorem forwarded_ne_spec_witness :
    (forwardedKw ["callDialect", "configDialect", "config", "defaultDialect"] { callDialect := some true } {} {}).omitNone = false
    ∧ (specKw ["callDialect", "configDialect", "config", "defaultDialect"] { callDialect := some true } {} {}).omitNone = true := by
  decide

/-- non-vacuity: a field list with an aliased nullable converting field and a defaulted one -/
example : ∀ p ∈ [(({ name := "a", alias := some "A", nullable := true, default := some (.int 1) } : FieldS),
                   ({ raw := .none, packed := .none } : FieldV)),
                  ({ name := "b", identPacker := true }, { raw := .int 2, packed := .int 2 })], WFv p := by
  intro p hp; simp at hp; rcases hp with rfl | rfl <;> simp [WFv]

end Mashu.ToDict
