/-
  C19 / C12 (discriminated dispatch): the selected variant is invoked exactly once per call and
  its own exception reaches the caller unchanged — for every behaviour of the variant.
-/
import Mashu.DispatchCall
import Mashu.Generated
namespace Mashu.DispatchCall

/-- **guarding only the lookup**: a registered or discoverable variant is invoked exactly once and the
    caller sees exactly what that invocation did, whatever it raises on this or any later invocation -/
theorem invoked_once (registered exists_ : Bool) (beh : Nat → Beh) (h : (registered || exists_) = true) :
    dispatch true registered exists_ beh = ⟨1, ofBeh (beh 0)⟩ := by
  simp only [dispatch, h, if_true]

/-- no variant carries the tag: nothing is invoked -/
theorem unknown_tag (beh : Nat → Beh) : dispatch true false false beh = ⟨0, .notFound⟩ := by
  simp [dispatch]

/-- the outcome does not depend on whether the registry was warm (history independence of one call) -/
theorem warm_eq_cold (beh : Nat → Beh) : dispatch true true true beh = dispatch true false true beh := by
  simp [dispatch]

/-- the pinned guard (lookup and call together): a variant that raises KeyError is invoked twice and the
    caller is told that no variant was found; one that raises AttributeError once and then returns
    is invoked twice as well (its hooks run twice for one input) -/
theorem broad_guard_calls_twice :
    dispatch false true true (fun _ => .raises .key) = ⟨2, .notFound⟩
    ∧ dispatch false true true (fun k => if k = 0 then .raises .attr else .returns) = ⟨2, .value⟩
    ∧ dispatch true true true (fun _ => .raises .key) = ⟨1, .raised .key⟩
    ∧ dispatch true true true (fun k => if k = 0 then .raises .attr else .returns) = ⟨1, .raised .attr⟩ := by
  refine ⟨?_, ?_, ?_, ?_⟩ <;> decide

/-- the current source guards the lookup only (read from unpack.py on this run) -/
theorem lookup_only_pinned : Mashu.Generated.dispatchGuardsLookupOnly = true := by decide

end Mashu.DispatchCall
