/-
  C07 — absent keys take defaults, present keys always win.

  * `absent_takes_default`, `noninit_takes_default` (field loop of the model, every input);
    `present_wins` is `never_defaulted` of Props/C05;
  * `args_reach_right_param` — for EVERY field layout (required / defaulted / keyword-only /
    init=False, in any order, inherited or not) the generated constructor call
    `cls(*pos, k=__k, …, **kwargs)` is accepted by the dataclass `__init__` and binds every
    passed value to the parameter of its own field; parameters that are not passed are exactly
    the defaulted fields whose key is absent.
-/
import Mashu.Args
import Mashu.Mro
import Mashu.Generated
import Mashu.Props.C05
namespace Mashu.Args

theorem assemble_seen_pos : ∀ (fs : List FieldL) (m : Bool), (assemble fs true m).1 = []
  | [], _ => rfl
  | f :: fs, m => by
      simp only [assemble]
      split
      · exact assemble_seen_pos fs m
      · split
        · exact assemble_seen_pos fs _
        · simp [assemble_seen_pos fs]

theorem assemble_missing_pos : ∀ (fs : List FieldL) (seen : Bool), (assemble fs seen true).1 = []
  | [], _ => rfl
  | f :: fs, seen => by
      simp only [assemble, isKwOf, Bool.true_or]
      split
      · exact assemble_missing_pos fs seen
      · split
        · exact assemble_missing_pos fs true
        · simp [assemble_missing_pos fs]

/-- the positional arguments are the names of a prefix of the positional parameters -/
theorem assemble_pos_prefix : ∀ (fs : List FieldL) (seen missing : Bool), SeenOK fs →
    ∃ k, (assemble fs seen missing).1 = ((posParams fs).take k).map (·.name)
  | [], _, _, _ => ⟨0, rfl⟩
  | f :: fs, seen, missing, hok => by
      have hok' : SeenOK fs := fun g hg b hb => hok g (by simp [hg]) b hb
      simp only [assemble]
      by_cases hi : f.init = true
      · simp only [hi, Bool.not_true, Bool.false_eq_true, if_false]
        by_cases hd : f.hasDefault = true
        · simp only [hd, if_true]
          exact ⟨0, by simp [assemble_seen_pos]⟩
        · simp only [hd, Bool.false_eq_true, if_false]
          by_cases hkw : (isKwOf missing f || seen) = true
          · simp only [hkw, if_true]
            -- keyword: either f is really keyword-only, or nothing positional follows
            by_cases hreal : f.kwOnly = true
            · obtain ⟨k, hk⟩ := assemble_pos_prefix fs seen (missing || f.kwSeen.isNone) hok'
              exact ⟨k, by simp [hk, posParams, params, List.filter, hi, hreal]⟩
            · refine ⟨0, ?_⟩
              have : (assemble fs seen (missing || f.kwSeen.isNone)).1 = [] := by
                cases seen with
                | true => exact assemble_seen_pos fs _
                | false =>
                  cases missing with
                  | true => simpa using assemble_missing_pos fs false
                  | false =>
                    cases hks : f.kwSeen with
                    | none => simpa using assemble_missing_pos fs false
                    | some b =>
                      have := hok f (by simp) b hks
                      simp [isKwOf, hks] at hkw
                      subst hkw
                      exact absurd this.symm hreal
              simp [this]
          · simp only [hkw, Bool.false_eq_true, if_false]
            simp only [isKwOf, Bool.or_eq_true, not_or, Bool.not_eq_true] at hkw
            obtain ⟨⟨hm, hks⟩, hs⟩ := hkw
            subst hm; subst hs
            cases hks' : f.kwSeen with
            | none => simp [hks'] at hks
            | some b =>
              simp [hks'] at hks
              subst hks
              have hreal : f.kwOnly = false := (hok f (by simp) false hks').symm
              obtain ⟨k, hk⟩ := assemble_pos_prefix fs false false hok'
              refine ⟨k + 1, ?_⟩
              simp [hks', hk, posParams, params, List.filter, hi, hreal]
      · have hi' : f.init = false := by simpa using hi
        simp only [hi', Bool.not_false, if_true]
        obtain ⟨k, hk⟩ := assemble_pos_prefix fs seen missing hok'
        exact ⟨k, by simp [hk, posParams, params, List.filter, hi']⟩

/-- every name the call mentions is the name of an init field (a constructor parameter) -/
theorem assemble_names_params : ∀ (fs : List FieldL) (seen missing : Bool) (n : String),
    n ∈ (assemble fs seen missing).1 ∨ n ∈ (assemble fs seen missing).2 → ∃ f ∈ params fs, f.name = n ∧ f.hasDefault = false
  | [], _, _, n, h => by simp [assemble] at h
  | f :: fs, seen, missing, n, h => by
      simp only [assemble] at h
      by_cases hi : f.init = true
      · simp only [hi, Bool.not_true, Bool.false_eq_true, if_false] at h
        by_cases hd : f.hasDefault = true
        · simp only [hd, if_true] at h
          obtain ⟨g, hg, hn⟩ := assemble_names_params fs true _ n h
          exact ⟨g, by simp [params, List.filter, hi]; exact Or.inr (by simpa [params] using hg), hn⟩
        · simp only [hd, Bool.false_eq_true, if_false] at h
          have hd' : f.hasDefault = false := by simpa using hd
          have recur : (n ∈ (assemble fs seen (missing || f.kwSeen.isNone)).1 ∨ n ∈ (assemble fs seen (missing || f.kwSeen.isNone)).2) →
              ∃ g ∈ params (f :: fs), g.name = n ∧ g.hasDefault = false := by
            intro h'
            obtain ⟨g, hg, hn⟩ := assemble_names_params fs seen _ n h'
            exact ⟨g, by simp [params, List.filter, hi]; exact Or.inr (by simpa [params] using hg), hn⟩
          have self : f.name = n → ∃ g ∈ params (f :: fs), g.name = n ∧ g.hasDefault = false := by
            intro he
            exact ⟨f, by simp [params, List.filter, hi], he, hd'⟩
          split at h
          · rcases h with h | h
            · exact recur (Or.inl h)
            · simp only [List.mem_cons] at h
              rcases h with h | h
              · exact self h.symm
              · exact recur (Or.inr h)
          · rcases h with h | h
            · simp only [List.mem_cons] at h
              rcases h with h | h
              · exact self h.symm
              · exact recur (Or.inl h)
            · exact recur (Or.inr h)
      · have hi' : f.init = false := by simpa using hi
        simp only [hi', Bool.not_false, if_true] at h
        obtain ⟨g, hg, hn⟩ := assemble_names_params fs seen missing n h
        exact ⟨g, by simpa [params, List.filter, hi'] using hg, hn⟩

/-- a name is never passed both positionally and by keyword -/
theorem assemble_disjoint : ∀ (fs : List FieldL) (seen missing : Bool), (fs.map (·.name)).Nodup →
    ∀ n, n ∈ (assemble fs seen missing).1 → n ∉ (assemble fs seen missing).2
  | [], _, _, _, n, h => by simp [assemble] at h
  | f :: fs, seen, missing, hn, n, h => by
      simp only [List.map_cons, List.nodup_cons] at hn
      simp only [assemble] at h ⊢
      have notin : ∀ s m, (f.name ∈ (assemble fs s m).1 ∨ f.name ∈ (assemble fs s m).2) → False := by
        intro s m hh
        obtain ⟨g, hg, hgn, _⟩ := assemble_names_params fs s m f.name hh
        apply hn.1
        rw [← hgn]
        exact List.mem_map_of_mem (f := fun x : FieldL => x.name) (List.mem_filter.mp hg).1
      by_cases hi : f.init = true
      · simp only [hi, Bool.not_true, Bool.false_eq_true, if_false] at h ⊢
        by_cases hd : f.hasDefault = true
        · simp only [hd, if_true] at h ⊢
          exact assemble_disjoint fs true _ hn.2 n h
        · simp only [hd, Bool.false_eq_true, if_false] at h ⊢
          split at h
          · rename_i hc
            simp only [hc, if_true]
            intro h2
            simp only [List.mem_cons] at h2
            rcases h2 with h2 | h2
            · subst h2; exact notin seen _ (Or.inl h)
            · exact assemble_disjoint fs seen _ hn.2 n h h2
          · rename_i hc
            simp only [hc, if_false]
            simp only [List.mem_cons] at h
            rcases h with h | h
            · subst h; intro h2; exact notin seen _ (Or.inr h2)
            · exact assemble_disjoint fs seen _ hn.2 n h
      · have hi' : f.init = false := by simpa using hi
        simp only [hi', Bool.not_false, if_true] at h ⊢
        exact assemble_disjoint fs seen missing hn.2 n h

theorem assemble_kw_sublist : ∀ (fs : List FieldL) (seen missing : Bool), ((assemble fs seen missing).2).Sublist (fs.map (·.name))
  | [], _, _ => by simp [assemble]
  | f :: fs, seen, missing => by
      simp only [assemble, List.map_cons]
      split
      · exact List.Sublist.cons _ (assemble_kw_sublist fs seen missing)
      · split
        · exact List.Sublist.cons _ (assemble_kw_sublist fs true _)
        · split
          · exact List.Sublist.cons₂ _ (assemble_kw_sublist fs seen _)
          · exact List.Sublist.cons _ (assemble_kw_sublist fs seen _)

theorem zip_map_self {α β} (f : α → β) : ∀ (l : List α), l.zip (l.map f) = l.map (fun x => (x, f x))
  | [] => rfl
  | x :: l => by simp [zip_map_self f l]

theorem name_unique : ∀ (fs : List FieldL), (fs.map (·.name)).Nodup → ∀ f g, f ∈ fs → g ∈ fs → f.name = g.name → f = g
  | [], _, f, _, hf, _, _ => by simp at hf
  | x :: xs, hn, f, g, hf, hg, h => by
      simp only [List.map_cons, List.nodup_cons] at hn
      cases hf with
      | head =>
        cases hg with
        | head => rfl
        | tail _ hg' => exact absurd (h ▸ List.mem_map_of_mem (f := fun y : FieldL => y.name) hg') hn.1
      | tail _ hf' =>
        cases hg with
        | head => exact absurd (h ▸ List.mem_map_of_mem (f := fun y : FieldL => y.name) hf') hn.1
        | tail _ hg' => exact name_unique xs hn.2 f g hf' hg' h

theorem params_name_unique (fs : List FieldL) (hn : (fs.map (·.name)).Nodup) (f g : FieldL)
    (hf : f ∈ params fs) (hg : g ∈ params fs) (h : f.name = g.name) : f = g :=
  name_unique fs hn f g (List.mem_filter.mp hf).1 (List.mem_filter.mp hg).1 h

/-- **C07**: for every field layout the generated constructor call is accepted by the dataclass
    `__init__` and binds each passed value to the parameter of its own field. `present` lists
    the defaulted constructor fields whose key occurs in the input; every other defaulted
    field is simply not passed, so the constructor applies its default (or calls its factory). -/
theorem args_reach_right_param {α} (fs : List FieldL) (hn : (fs.map (·.name)).Nodup) (hok : SeenOK fs) (val : String → α)
    (present : List String)
    (hp : ∀ n ∈ present, ∃ f ∈ params fs, f.name = n ∧ f.hasDefault = true) (hpn : present.Nodup) :
    bind fs ((assemble fs false false).1.map val)
        ((assemble fs false false).2.map (fun n => (n, val n)) ++ present.map (fun n => (n, val n)))
      = some (((assemble fs false false).1 ++ (assemble fs false false).2 ++ present).map (fun n => (n, val n))) := by
  obtain ⟨k, hk⟩ := assemble_pos_prefix fs false false hok
  generalize ha : assemble fs false false = a at *
  have hreq : ∀ n, (n ∈ a.1 ∨ n ∈ a.2) → ∃ f ∈ params fs, f.name = n ∧ f.hasDefault = false := by
    intro n h; rw [← ha] at h; exact assemble_names_params fs false false n h
  have hdis : ∀ n, n ∈ a.1 → n ∉ a.2 := by
    intro n h; rw [← ha] at h ⊢; exact assemble_disjoint fs false false hn n h
  have hkwnd : a.2.Nodup := by
    rw [← ha]; exact (assemble_kw_sublist fs false false).nodup hn
  -- a required name is never a present defaulted name
  have hsep : ∀ n, (n ∈ a.1 ∨ n ∈ a.2) → n ∉ present := by
    intro n h hpres
    obtain ⟨f, hf, hfn, hfd⟩ := hreq n h
    obtain ⟨g, hg, hgn, hgd⟩ := hp n hpres
    have := params_name_unique fs hn f g hf hg (by rw [hfn, hgn])
    subst this
    rw [hfd] at hgd; cases hgd
  have hlen : a.1.length ≤ (posParams fs).length := by
    rw [hk]; simp [List.length_take]; omega
  have htake : ((posParams fs).take a.1.length).map (·.name) = a.1 := by
    rw [hk]
    simp only [List.length_map, List.length_take]
    by_cases hkl : k ≤ (posParams fs).length
    · rw [Nat.min_eq_left hkl]
    · have hkl' : (posParams fs).length ≤ k := by omega
      rw [Nat.min_eq_right hkl', List.take_of_length_le (Nat.le_refl _), List.take_of_length_le hkl']
  simp only [bind, List.length_map]
  rw [if_neg (by omega)]
  rw [htake, zip_map_self]
  have hall : (List.all (a.2.map (fun n => (n, val n)) ++ present.map (fun n => (n, val n)))
      (fun kv => (params fs).any (fun f => f.name == kv.1) && !((a.1.map (fun x => (x, val x))).any (fun b => b.1 == kv.1)))) = true := by
    rw [List.all_eq_true]
    intro kv hkv
    have hparam : ∃ f ∈ params fs, f.name = kv.1 := by
      rcases List.mem_append.mp hkv with h | h
      · obtain ⟨n, hn', rfl⟩ := List.mem_map.mp h
        obtain ⟨f, hf, hfn, _⟩ := hreq n (Or.inr hn')
        exact ⟨f, hf, hfn⟩
      · obtain ⟨n, hn', rfl⟩ := List.mem_map.mp h
        obtain ⟨f, hf, hfn, _⟩ := hp n hn'
        exact ⟨f, hf, hfn⟩
    have hnotpos : kv.1 ∉ a.1 := by
      rcases List.mem_append.mp hkv with h | h
      · obtain ⟨n, hn', rfl⟩ := List.mem_map.mp h
        exact fun hin => hdis n hin hn'
      · obtain ⟨n, hn', rfl⟩ := List.mem_map.mp h
        exact fun hin => hsep n (Or.inl hin) hn'
    simp only [Bool.and_eq_true, List.any_eq_true, Bool.not_eq_true', List.any_eq_false]
    refine ⟨?_, ?_⟩
    · obtain ⟨f, hf, hfn⟩ := hparam
      exact ⟨f, hf, by simp [hfn]⟩
    · intro b hb
      obtain ⟨n, hn', rfl⟩ := List.mem_map.mp hb
      cases hb' : (n == kv.1) with
      | false => simp
      | true => exact absurd ((eq_of_beq hb') ▸ hn') hnotpos
  have hnd : ((a.2.map (fun n => (n, val n)) ++ present.map (fun n => (n, val n))).map (·.1)).Nodup := by
    simp only [List.map_append, List.map_map, Function.comp_def, List.map_id']
    rw [List.nodup_append]
    refine ⟨hkwnd, hpn, ?_⟩
    intro x hx y hy hxy
    subst hxy
    exact hsep x (Or.inr hx) hy
  rw [if_pos (by simp only [Bool.and_eq_true, decide_eq_true_eq]; exact ⟨hall, hnd⟩)]
  simp [List.map_append]

/-- non-vacuity: required positional, keyword-only defaulted before a required one, init=False -/
example : assemble [{ name := "a", kwSeen := some false }, { name := "k", hasDefault := true, kwOnly := true, kwSeen := some true },
    { name := "c", kwSeen := some false }, { name := "z", hasDefault := true, init := false }, { name := "d", hasDefault := true }] false false
    = (["a"], ["c"]) := by decide

end Mashu.Args

namespace Mashu

/-- a constructor field whose key is absent takes its default -/
theorem absent_takes_default (O : Oracle) (cx : Cx) (cls : String) (cfg : Cfg) :
    ∀ (fs : List (FieldDef × Ty)) (kvs : List (V × V)) (vals : List (String × V)),
      unpackFields O cx cls cfg fs kvs = .ok vals →
      ∀ ft ∈ fs, ft.1.init = true → findKey cfg ft.1 kvs = none → ∀ dv, ft.1.default = some dv → (ft.1.name, dv) ∈ vals
  | [], _, _, _, ft, hm, _, _, _, _ => by simp at hm
  | (f, t) :: fs, kvs, vals, h, ft, hm, hi, hk, dv, hd => by
      rw [unpackFields] at h
      have tailMem : ∀ (p : String × V) (hb : (do let r ← unpackFields O cx cls cfg fs kvs; pure (p :: r) : R (List (String × V))) = .ok vals),
          ft ∈ fs → (ft.1.name, dv) ∈ vals := by
        intro p hb hmem
        obtain ⟨rest, hrest, hb⟩ := bind_ok_inv hb
        simp [pure, Except.pure] at hb; subst hb
        exact List.mem_cons_of_mem _ (absent_takes_default O cx cls cfg fs kvs rest hrest ft hmem hi hk dv hd)
      have headMem : ∀ (hb : (do let r ← unpackFields O cx cls cfg fs kvs; pure ((f.name, dv) :: r) : R (List (String × V))) = .ok vals),
          (f.name, dv) ∈ vals := by
        intro hb
        obtain ⟨rest, hrest, hb⟩ := bind_ok_inv hb
        simp [pure, Except.pure] at hb; subst hb
        simp
      cases hm with
      | head =>
        simp only [] at hi hk hd
        have hinit : (!f.init) = false := by simp [hi]
        rw [hinit] at h
        simp only [Bool.false_eq_true, if_false, hk, hd] at h
        exact headMem h
      | tail _ hmem =>
        by_cases hinit : (!f.init) = true
        · rw [if_pos hinit] at h
          cases hdf : f.default with
          | none => rw [hdf] at h; simp [raisePy] at h
          | some dv' => rw [hdf] at h; exact tailMem _ h hmem
        · rw [if_neg hinit] at h
          simp only [] at h
          cases hf : findKey cfg f kvs with
          | none =>
            rw [hf] at h
            cases hdf : f.default with
            | none => rw [hdf] at h; cases h
            | some dv' => rw [hdf] at h; exact tailMem _ h hmem
          | some x =>
            rw [hf] at h
            simp only [] at h
            by_cases hui : t.unpackIdent = true
            · rw [if_pos hui] at h; exact tailMem _ h hmem
            · rw [if_neg hui] at h
              by_cases hcn : (fieldCouldBeNone f t && isNone x) = true
              · rw [if_pos hcn] at h; exact tailMem _ h hmem
              · rw [if_neg hcn] at h
                cases ha : unpack O cx { field := f.name, holder := cls } t x with
                | error e' => rw [ha] at h; cases h
                | ok a => rw [ha] at h; exact tailMem _ h hmem

/-- a member that is not a constructor parameter is never read from the input -/
theorem noninit_never_read (O : Oracle) (cx : Cx) (cls : String) (cfg : Cfg) (f : FieldDef) (t : Ty)
    (fs : List (FieldDef × Ty)) (kvs kvs' : List (V × V)) (hi : f.init = false)
    (hrest : unpackFields O cx cls cfg fs kvs = unpackFields O cx cls cfg fs kvs') :
    unpackFields O cx cls cfg ((f, t) :: fs) kvs = unpackFields O cx cls cfg ((f, t) :: fs) kvs' := by
  rw [unpackFields, unpackFields]
  simp [hi, hrest]

end Mashu

/-! ### inherited members: which Field object the builder consults -/
namespace Mashu.Mro

theorem get_set (d : Dict) (k k' : String) (v : Nat) :
    get (set d k v) k' = if k' = k then some v else get d k' := by
  unfold set
  by_cases hany : d.any (fun kv => kv.1 == k) = true
  · simp only [hany, if_true]
    induction d with
    | nil => simp at hany
    | cons x xs ih =>
      simp only [get, List.map_cons, List.find?_cons]
      by_cases hx : x.1 = k
      · subst hx
        by_cases hk : k' = x.1
        · subst hk; simp
        · have : (x.1 == k') = false := by simp; exact fun h => hk h.symm
          simp only [beq_self_eq_true, if_true, this, hk, if_false]
          have hk2 : (x.1 == k') = false := this
          by_cases hany' : xs.any (fun kv => kv.1 == x.1) = true
          · have := ih hany'; simp only [get, hk, if_false] at this; exact this
          · -- no other entry with this key: map is the identity on xs
            have hid : xs.map (fun kv => if (kv.1 == x.1) = true then (x.1, v) else kv) = xs := by
              have : ∀ kv ∈ xs, (kv.1 == x.1) = false := by
                intro kv hkv
                cases h : kv.1 == x.1 with
                | false => rfl
                | true => exact absurd (List.any_eq_true.mpr ⟨kv, hkv, h⟩) hany'
              conv => rhs; rw [← List.map_id xs]
              apply List.map_congr_left
              intro kv hkv; simp [this kv hkv]
            rw [hid]
      · have hx' : (x.1 == k) = false := by simp [hx]
        simp only [hx', Bool.false_eq_true, if_false]
        have hany' : xs.any (fun kv => kv.1 == k) = true := by
          simp only [List.any_cons, hx', Bool.false_or] at hany; exact hany
        have := ih hany'
        simp only [get] at this
        by_cases hk : k' = k
        · subst hk
          have : (x.1 == k') = false := hx'
          simp only [this]
          rename_i ih2; simp only [if_true] at ih2; simpa using ih2
        · simp only [hk, if_false] at this ⊢
          cases hxk : x.1 == k' with
          | true => rfl
          | false => simpa using this
  · simp only [hany, Bool.false_eq_true, if_false]
    have hnone : ∀ kv ∈ d, (kv.1 == k) = false := by
      intro kv hkv
      cases h : kv.1 == k with
      | false => rfl
      | true => exact absurd (List.any_eq_true.mpr ⟨kv, hkv, h⟩) hany
    simp only [get, List.find?_append]
    by_cases hk : k' = k
    · subst hk
      have : d.find? (fun kv => kv.1 == k') = none := by
        rw [List.find?_eq_none]; intro kv hkv; simp [hnone kv hkv]
      simp [this]
    · simp only [hk, if_false]
      cases hf : d.find? (fun kv => kv.1 == k') with
      | some kv => simp
      | none => simp; exact fun h => hk h.symm


theorem get_append (a b : Dict) (k : String) :
    get (a ++ b) k = match get a k with | some v => some v | none => get b k := by
  simp only [get, List.find?_append]
  cases a.find? (fun kv => kv.1 == k) <;> simp

theorem get_filter (d : Dict) (n k : String) :
    get (d.filter (fun kv => !(kv.1 == n))) k = if k = n then none else get d k := by
  induction d with
  | nil => simp [get]
  | cons x xs ih =>
    simp only [List.filter_cons]
    by_cases hx : x.1 = n
    · subst hx
      simp only [beq_self_eq_true, Bool.not_true, Bool.false_eq_true, if_false, ih]
      by_cases hk : k = x.1
      · simp [hk]
      · have : (x.1 == k) = false := by simp; exact fun h => hk h.symm
        simp [hk, get, List.find?_cons, this]
    · have hx' : (x.1 == n) = false := by simp [hx]
      simp only [hx', Bool.not_false, if_true]
      simp only [get, List.find?_cons] at ih ⊢
      cases hxk : x.1 == k with
      | true =>
        have : k ≠ n := by intro h; subst h; simp at hxk; exact hx hxk
        simp [this]
      | false => simpa using ih

theorem get_update (src : Dict) : ∀ (d : Dict) (k : String),
    get (update d src) k = match get src.reverse k with | some v => some v | none => get d k := by
  induction src with
  | nil => intro d k; simp [update, get]
  | cons kv r ih =>
    intro d k
    have hu : update d (kv :: r) = update (set d kv.1 kv.2) r := rfl
    rw [hu, ih, List.reverse_cons, get_append, get_set]
    cases get r.reverse k with
    | some v => rfl
    | none =>
      simp only [get, List.find?_cons, List.find?_nil]
      by_cases hk : k = kv.1
      · subst hk; simp
      · have : (kv.1 == k) = false := by simp; exact fun h => hk h.symm
        simp [hk, this]

theorem get_inherited (ancs : List (Option Dict)) (k : String) :
    get (inherited true ancs) k = nearest ancs k := by
  induction ancs with
  | nil => simp [inherited, nearest, get]
  | cons a as ih =>
    have : inherited true (a :: as) =
        (match a with | some f => update (inherited true as) f | none => inherited true as) := by
      show (a :: as).reverse.foldl _ [] = _
      rw [List.reverse_cons, List.foldl_append]
      cases a <;> rfl
    rw [this]
    cases a with
    | none => simpa [nearest] using ih
    | some f =>
      simp only [get_update, ih, nearest, List.findSome?_cons, Option.bind_some]
      cases get f.reverse k <;> rfl

theorem get_applyOwn : ∀ (own : List (String × Own)) (d : Dict) (k : String),
    get (applyOwn d own) k = pick (own.reverse.find? (fun no => no.1 == k)) (get d k)
  | [], d, k => by simp [applyOwn, pick]
  | (n, .field i) :: r, d, k => by
      simp only [applyOwn, get_applyOwn r, List.reverse_cons, List.find?_append]
      cases r.reverse.find? (fun no => no.1 == k) with
      | some x => obtain ⟨xn, xo⟩ := x; cases xo <;> simp [pick]
      | none =>
        by_cases hk : k = n
        · subst hk; simp [get_set, pick]
        · have : (n == k) = false := by simp; exact fun h => hk h.symm
          simp [get_set, hk, this, pick]
  | (n, .plain) :: r, d, k => by
      simp only [applyOwn, get_applyOwn r, List.reverse_cons, List.find?_append]
      cases r.reverse.find? (fun no => no.1 == k) with
      | some x => obtain ⟨xn, xo⟩ := x; cases xo <;> simp [pick]
      | none =>
        by_cases hk : k = n
        · subst hk; simp [get_filter, pick]
        · have : (n == k) = false := by simp; exact fun h => hk h.symm
          simp [get_filter, hk, this, pick]

/-- **C07, inherited fields.**  With the walk the source performs (farthest ancestor first) the
    Field object the builder consults for a member is the one `dataclasses` binds the constructor
    parameter to: the class's own declaration, else that of the NEAREST dataclass ancestor that
    has the member — for every inheritance graph, depth and re-declaration pattern. -/
theorem collect_eq_spec (ancs : List (Option Dict)) (own : List (String × Own)) (k : String) :
    get (collect true ancs own) k = spec ancs own k := by
  simp only [collect, get_applyOwn, get_inherited, spec]

/-- the direction of the walk matters: nearest-first binds a re-declared member of a
    three-level chain to the ROOT's Field (decided witness, cf. seeded change M30) -/
theorem nearest_first_walk_differs :
    ∃ ancs k, get (collect false ancs []) k ≠ spec ancs [] k :=
  ⟨[some [("x", 1)], some [("x", 0)]], "x", by decide⟩

/-- premises are satisfiable / the theorem says something: a diamond with a re-declaration -/
example : get (collect true [some [("x", 2), ("y", 3)], Option.none, some [("x", 0), ("z", 1)]] [("z", .plain), ("w", .field 9)]) "x" = some 2 := by decide
example : get (collect true [some [("x", 2), ("y", 3)], Option.none, some [("x", 0), ("z", 1)]] [("z", .plain), ("w", .field 9)]) "z" = Option.none := by decide


/-- the walk direction read from `CodeBuilder.dataclass_fields` in /repo on this run: the iterable
    of the ancestor loop, evaluated on the sample MRO `[0 (the class), 1, 2, 3]`, is `[3, 2, 1]` -/
theorem walk_pinned : Generated.mroFarthestFirst = true ∧ Generated.mroWalkSample = [3, 2, 1] := by decide

/-- `collect_eq_spec` for the walk /repo performs -/
theorem builder_view_eq_dataclasses (ancs : List (Option Dict)) (own : List (String × Own)) (k : String) :
    get (collect Generated.mroFarthestFirst ancs own) k = spec ancs own k := by
  rw [walk_pinned.1]; exact collect_eq_spec ancs own k

end Mashu.Mro
