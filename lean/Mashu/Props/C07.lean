/-
  C07 — absent keys take defaults, present keys always win.

  * `absent_takes_default`, `noninit_takes_default` (field loop of the model, every input);
    `present_wins` is `never_defaulted` of Props/C05;
  * `args_reach_right_param` — for EVERY field layout (required / defaulted / keyword-only /
    init=False, in any order, inherited or not) the generated constructor call
    `cls(*pos, k=__k, …, **kwargs)` is accepted by the dataclass `__init__` and binds every
    passed value to the parameter of its own field; parameters that are not passed are exactly
    the defaulted fields whose key is absent.
-/
import Mashu.Args
import Mashu.Props.C05
namespace Mashu.Args

theorem assemble_seen_pos : ∀ (fs : List FieldL) (m : Bool), (assemble fs true m).1 = []
  | [], _ => rfl
  | f :: fs, m => by
      simp only [assemble]
      split
      · exact assemble_seen_pos fs m
      · split
        · exact assemble_seen_pos fs _
        · simp [assemble_seen_pos fs]

theorem assemble_missing_pos : ∀ (fs : List FieldL) (seen : Bool), (assemble fs seen true).1 = []
  | [], _ => rfl
  | f :: fs, seen => by
      simp only [assemble, isKwOf, Bool.true_or]
      split
      · exact assemble_missing_pos fs seen
      · split
        · exact assemble_missing_pos fs true
        · simp [assemble_missing_pos fs]

/-- the positional arguments are the names of a prefix of the positional parameters -/
theorem assemble_pos_prefix : ∀ (fs : List FieldL) (seen missing : Bool), SeenOK fs →
    ∃ k, (assemble fs seen missing).1 = ((posParams fs).take k).map (·.name)
  | [], _, _, _ => ⟨0, rfl⟩
  | f :: fs, seen, missing, hok => by
      have hok' : SeenOK fs := fun g hg b hb => hok g (by simp [hg]) b hb
      simp only [assemble]
      by_cases hi : f.init = true
      · simp only [hi, Bool.not_true, Bool.false_eq_true, if_false]
        by_cases hd : f.hasDefault = true
        · simp only [hd, if_true]
          exact ⟨0, by simp [assemble_seen_pos]⟩
        · simp only [hd, Bool.false_eq_true, if_false]
          by_cases hkw : (isKwOf missing f || seen) = true
          · simp only [hkw, if_true]
            -- keyword: either f is really keyword-only, or nothing positional follows
            by_cases hreal : f.kwOnly = true
            · obtain ⟨k, hk⟩ := assemble_pos_prefix fs seen (missing || f.kwSeen.isNone) hok'
              exact ⟨k, by simp [hk, posParams, params, List.filter, hi, hreal]⟩
            · refine ⟨0, ?_⟩
              have : (assemble fs seen (missing || f.kwSeen.isNone)).1 = [] := by
                cases seen with
                | true => exact assemble_seen_pos fs _
                | false =>
                  cases missing with
                  | true => simpa using assemble_missing_pos fs false
                  | false =>
                    cases hks : f.kwSeen with
                    | none => simpa using assemble_missing_pos fs false
                    | some b =>
                      have := hok f (by simp) b hks
                      simp [isKwOf, hks] at hkw
                      subst hkw
                      exact absurd this.symm hreal
              simp [this]
          · simp only [hkw, Bool.false_eq_true, if_false]
            simp only [isKwOf, Bool.or_eq_true, not_or, Bool.not_eq_true] at hkw
            obtain ⟨⟨hm, hks⟩, hs⟩ := hkw
            subst hm; subst hs
            cases hks' : f.kwSeen with
            | none => simp [hks'] at hks
            | some b =>
              simp [hks'] at hks
              subst hks
              have hreal : f.kwOnly = false := (hok f (by simp) false hks').symm
              obtain ⟨k, hk⟩ := assemble_pos_prefix fs false false hok'
              refine ⟨k + 1, ?_⟩
              simp [hks', hk, posParams, params, List.filter, hi, hreal]
      · have hi' : f.init = false := by simpa using hi
        simp only [hi', Bool.not_false, if_true]
        obtain ⟨k, hk⟩ := assemble_pos_prefix fs seen missing hok'
        exact ⟨k, by simp [hk, posParams, params, List.filter, hi']⟩

/-- every name the call mentions is the name of an init field (a constructor parameter) -/
theorem assemble_names_params : ∀ (fs : List FieldL) (seen missing : Bool) (n : String),
    n ∈ (assemble fs seen missing).1 ∨ n ∈ (assemble fs seen missing).2 → ∃ f ∈ params fs, f.name = n ∧ f.hasDefault = false
  | [], _, _, n, h => by simp [assemble] at h
  | f :: fs, seen, missing, n, h => by
      simp only [assemble] at h
      by_cases hi : f.init = true
      · simp only [hi, Bool.not_true, Bool.false_eq_true, if_false] at h
        by_cases hd : f.hasDefault = true
        · simp only [hd, if_true] at h
          obtain ⟨g, hg, hn⟩ := assemble_names_params fs true _ n h
          exact ⟨g, by simp [params, List.filter, hi]; exact Or.inr (by simpa [params] using hg), hn⟩
        · simp only [hd, Bool.false_eq_true, if_false] at h
          have hd' : f.hasDefault = false := by simpa using hd
          have recur : (n ∈ (assemble fs seen (missing || f.kwSeen.isNone)).1 ∨ n ∈ (assemble fs seen (missing || f.kwSeen.isNone)).2) →
              ∃ g ∈ params (f :: fs), g.name = n ∧ g.hasDefault = false := by
            intro h'
            obtain ⟨g, hg, hn⟩ := assemble_names_params fs seen _ n h'
            exact ⟨g, by simp [params, List.filter, hi]; exact Or.inr (by simpa [params] using hg), hn⟩
          have self : f.name = n → ∃ g ∈ params (f :: fs), g.name = n ∧ g.hasDefault = false := by
            intro he
            exact ⟨f, by simp [params, List.filter, hi], he, hd'⟩
          split at h
          · rcases h with h | h
            · exact recur (Or.inl h)
            · simp only [List.mem_cons] at h
              rcases h with h | h
              · exact self h.symm
              · exact recur (Or.inr h)
          · rcases h with h | h
            · simp only [List.mem_cons] at h
              rcases h with h | h
              · exact self h.symm
              · exact recur (Or.inl h)
            · exact recur (Or.inr h)
      · have hi' : f.init = false := by simpa using hi
        simp only [hi', Bool.not_false, if_true] at h
        obtain ⟨g, hg, hn⟩ := assemble_names_params fs seen missing n h
        exact ⟨g, by simpa [params, List.filter, hi'] using hg, hn⟩

/-- a name is never passed both positionally and by keyword -/
theorem assemble_disjoint : ∀ (fs : List FieldL) (seen missing : Bool), (fs.map (·.name)).Nodup →
    ∀ n, n ∈ (assemble fs seen missing).1 → n ∉ (assemble fs seen missing).2
  | [], _, _, _, n, h => by simp [assemble] at h
  | f :: fs, seen, missing, hn, n, h => by
      simp only [List.map_cons, List.nodup_cons] at hn
      simp only [assemble] at h ⊢
      have notin : ∀ s m, (f.name ∈ (assemble fs s m).1 ∨ f.name ∈ (assemble fs s m).2) → False := by
        intro s m hh
        obtain ⟨g, hg, hgn, _⟩ := assemble_names_params fs s m f.name hh
        apply hn.1
        rw [← hgn]
        exact List.mem_map_of_mem (f := fun x : FieldL => x.name) (List.mem_filter.mp hg).1
      by_cases hi : f.init = true
      · simp only [hi, Bool.not_true, Bool.false_eq_true, if_false] at h ⊢
        by_cases hd : f.hasDefault = true
        · simp only [hd, if_true] at h ⊢
          exact assemble_disjoint fs true _ hn.2 n h
        · simp only [hd, Bool.false_eq_true, if_false] at h ⊢
          split at h
          · rename_i hc
            simp only [hc, if_true]
            intro h2
            simp only [List.mem_cons] at h2
            rcases h2 with h2 | h2
            · subst h2; exact notin seen _ (Or.inl h)
            · exact assemble_disjoint fs seen _ hn.2 n h h2
          · rename_i hc
            simp only [hc, if_false]
            simp only [List.mem_cons] at h
            rcases h with h | h
            · subst h; intro h2; exact notin seen _ (Or.inr h2)
            · exact assemble_disjoint fs seen _ hn.2 n h
      · have hi' : f.init = false := by simpa using hi
        simp only [hi', Bool.not_false, if_true] at h ⊢
        exact assemble_disjoint fs seen missing hn.2 n h

theorem assemble_kw_sublist : ∀ (fs : List FieldL) (seen missing : Bool), ((assemble fs seen missing).2).Sublist (fs.map (·.name))
  | [], _, _ => by simp [assemble]
  | f :: fs, seen, missing => by
      simp only [assemble, List.map_cons]
      split
      · exact List.Sublist.cons _ (assemble_kw_sublist fs seen missing)
      · split
        · exact List.Sublist.cons _ (assemble_kw_sublist fs true _)
        · split
          · exact List.Sublist.cons₂ _ (assemble_kw_sublist fs seen _)
          · exact List.Sublist.cons _ (assemble_kw_sublist fs seen _)

theorem zip_map_self {α β} (f : α → β) : ∀ (l : List α), l.zip (l.map f) = l.map (fun x => (x, f x))
  | [] => rfl
  | x :: l => by simp [zip_map_self f l]

theorem name_unique : ∀ (fs : List FieldL), (fs.map (·.name)).Nodup → ∀ f g, f ∈ fs → g ∈ fs → f.name = g.name → f = g
  | [], _, f, _, hf, _, _ => by simp at hf
  | x :: xs, hn, f, g, hf, hg, h => by
      simp only [List.map_cons, List.nodup_cons] at hn
      cases hf with
      | head =>
        cases hg with
        | head => rfl
        | tail _ hg' => exact absurd (h ▸ List.mem_map_of_mem (f := fun y : FieldL => y.name) hg') hn.1
      | tail _ hf' =>
        cases hg with
        | head => exact absurd (h ▸ List.mem_map_of_mem (f := fun y : FieldL => y.name) hf') hn.1
        | tail _ hg' => exact name_unique xs hn.2 f g hf' hg' h

theorem params_name_unique (fs : List FieldL) (hn : (fs.map (·.name)).Nodup) (f g : FieldL)
    (hf : f ∈ params fs) (hg : g ∈ params fs) (h : f.name = g.name) : f = g :=
  name_unique fs hn f g (List.mem_filter.mp hf).1 (List.mem_filter.mp hg).1 h

/-- **C07**: for every field layout the generated constructor call is accepted by the dataclass
    `__init__` and binds each passed value to the parameter of its own field. `present` lists
    the defaulted constructor fields whose key occurs in the input; every other defaulted
    field is simply not passed, so the constructor applies its default (or calls its factory). -/
theorem args_reach_right_param {α} (fs : List FieldL) (hn : (fs.map (·.name)).Nodup) (hok : SeenOK fs) (val : String → α)
    (present : List String)
    (hp : ∀ n ∈ present, ∃ f ∈ params fs, f.name = n ∧ f.hasDefault = true) (hpn : present.Nodup) :
    bind fs ((assemble fs false false).1.map val)
        ((assemble fs false false).2.map (fun n => (n, val n)) ++ present.map (fun n => (n, val n)))
      = some (((assemble fs false false).1 ++ (assemble fs false false).2 ++ present).map (fun n => (n, val n))) := by
  obtain ⟨k, hk⟩ := assemble_pos_prefix fs false false hok
  generalize ha : assemble fs false false = a at *
  have hreq : ∀ n, (n ∈ a.1 ∨ n ∈ a.2) → ∃ f ∈ params fs, f.name = n ∧ f.hasDefault = false := by
    intro n h; rw [← ha] at h; exact assemble_names_params fs false false n h
  have hdis : ∀ n, n ∈ a.1 → n ∉ a.2 := by
    intro n h; rw [← ha] at h ⊢; exact assemble_disjoint fs false false hn n h
  have hkwnd : a.2.Nodup := by
    rw [← ha]; exact (assemble_kw_sublist fs false false).nodup hn
  -- a required name is never a present defaulted name
  have hsep : ∀ n, (n ∈ a.1 ∨ n ∈ a.2) → n ∉ present := by
    intro n h hpres
    obtain ⟨f, hf, hfn, hfd⟩ := hreq n h
    obtain ⟨g, hg, hgn, hgd⟩ := hp n hpres
    have := params_name_unique fs hn f g hf hg (by rw [hfn, hgn])
    subst this
    rw [hfd] at hgd; cases hgd
  have hlen : a.1.length ≤ (posParams fs).length := by
    rw [hk]; simp [List.length_take]; omega
  have htake : ((posParams fs).take a.1.length).map (·.name) = a.1 := by
    rw [hk]
    simp only [List.length_map, List.length_take]
    by_cases hkl : k ≤ (posParams fs).length
    · rw [Nat.min_eq_left hkl]
    · have hkl' : (posParams fs).length ≤ k := by omega
      rw [Nat.min_eq_right hkl', List.take_of_length_le (Nat.le_refl _), List.take_of_length_le hkl']
  simp only [bind, List.length_map]
  rw [if_neg (by omega)]
  rw [htake, zip_map_self]
  have hall : (List.all (a.2.map (fun n => (n, val n)) ++ present.map (fun n => (n, val n)))
      (fun kv => (params fs).any (fun f => f.name == kv.1) && !((a.1.map (fun x => (x, val x))).any (fun b => b.1 == kv.1)))) = true := by
    rw [List.all_eq_true]
    intro kv hkv
    have hparam : ∃ f ∈ params fs, f.name = kv.1 := by
      rcases List.mem_append.mp hkv with h | h
      · obtain ⟨n, hn', rfl⟩ := List.mem_map.mp h
        obtain ⟨f, hf, hfn, _⟩ := hreq n (Or.inr hn')
        exact ⟨f, hf, hfn⟩
      · obtain ⟨n, hn', rfl⟩ := List.mem_map.mp h
        obtain ⟨f, hf, hfn, _⟩ := hp n hn'
        exact ⟨f, hf, hfn⟩
    have hnotpos : kv.1 ∉ a.1 := by
      rcases List.mem_append.mp hkv with h | h
      · obtain ⟨n, hn', rfl⟩ := List.mem_map.mp h
        exact fun hin => hdis n hin hn'
      · obtain ⟨n, hn', rfl⟩ := List.mem_map.mp h
        exact fun hin => hsep n (Or.inl hin) hn'
    simp only [Bool.and_eq_true, List.any_eq_true, Bool.not_eq_true', List.any_eq_false]
    refine ⟨?_, ?_⟩
    · obtain ⟨f, hf, hfn⟩ := hparam
      exact ⟨f, hf, by simp [hfn]⟩
    · intro b hb
      obtain ⟨n, hn', rfl⟩ := List.mem_map.mp hb
      cases hb' : (n == kv.1) with
      | false => simp
      | true => exact absurd ((eq_of_beq hb') ▸ hn') hnotpos
  have hnd : ((a.2.map (fun n => (n, val n)) ++ present.map (fun n => (n, val n))).map (·.1)).Nodup := by
    simp only [List.map_append, List.map_map, Function.comp_def, List.map_id']
    rw [List.nodup_append]
    refine ⟨hkwnd, hpn, ?_⟩
    intro x hx y hy hxy
    subst hxy
    exact hsep x (Or.inr hx) hy
  rw [if_pos (by simp only [Bool.and_eq_true, decide_eq_true_eq]; exact ⟨hall, hnd⟩)]
  simp [List.map_append]

/-- non-vacuity: required positional, keyword-only defaulted before a required one, init=False -/
example : assemble [{ name := "a", kwSeen := some false }, { name := "k", hasDefault := true, kwOnly := true, kwSeen := some true },
    { name := "c", kwSeen := some false }, { name := "z", hasDefault := true, init := false }, { name := "d", hasDefault := true }] false false
    = (["a"], ["c"]) := by decide

end Mashu.Args

namespace Mashu

/-- a constructor field whose key is absent takes its default -/
theorem absent_takes_default (O : Oracle) (cx : Cx) (cls : String) (cfg : Cfg) :
    ∀ (fs : List (FieldDef × Ty)) (kvs : List (V × V)) (vals : List (String × V)),
      unpackFields O cx cls cfg fs kvs = .ok vals →
      ∀ ft ∈ fs, ft.1.init = true → findKey cfg ft.1 kvs = none → ∀ dv, ft.1.default = some dv → (ft.1.name, dv) ∈ vals
  | [], _, _, _, ft, hm, _, _, _, _ => by simp at hm
  | (f, t) :: fs, kvs, vals, h, ft, hm, hi, hk, dv, hd => by
      rw [unpackFields] at h
      have tailMem : ∀ (p : String × V) (hb : (do let r ← unpackFields O cx cls cfg fs kvs; pure (p :: r) : R (List (String × V))) = .ok vals),
          ft ∈ fs → (ft.1.name, dv) ∈ vals := by
        intro p hb hmem
        obtain ⟨rest, hrest, hb⟩ := bind_ok_inv hb
        simp [pure, Except.pure] at hb; subst hb
        exact List.mem_cons_of_mem _ (absent_takes_default O cx cls cfg fs kvs rest hrest ft hmem hi hk dv hd)
      have headMem : ∀ (hb : (do let r ← unpackFields O cx cls cfg fs kvs; pure ((f.name, dv) :: r) : R (List (String × V))) = .ok vals),
          (f.name, dv) ∈ vals := by
        intro hb
        obtain ⟨rest, hrest, hb⟩ := bind_ok_inv hb
        simp [pure, Except.pure] at hb; subst hb
        simp
      cases hm with
      | head =>
        simp only [] at hi hk hd
        have hinit : (!f.init) = false := by simp [hi]
        rw [hinit] at h
        simp only [Bool.false_eq_true, if_false, hk, hd] at h
        exact headMem h
      | tail _ hmem =>
        by_cases hinit : (!f.init) = true
        · rw [if_pos hinit] at h
          cases hdf : f.default with
          | none => rw [hdf] at h; simp [raisePy] at h
          | some dv' => rw [hdf] at h; exact tailMem _ h hmem
        · rw [if_neg hinit] at h
          simp only [] at h
          cases hf : findKey cfg f kvs with
          | none =>
            rw [hf] at h
            cases hdf : f.default with
            | none => rw [hdf] at h; cases h
            | some dv' => rw [hdf] at h; exact tailMem _ h hmem
          | some x =>
            rw [hf] at h
            simp only [] at h
            by_cases hui : t.unpackIdent = true
            · rw [if_pos hui] at h; exact tailMem _ h hmem
            · rw [if_neg hui] at h
              by_cases hcn : (fieldCouldBeNone f t && isNone x) = true
              · rw [if_pos hcn] at h; exact tailMem _ h hmem
              · rw [if_neg hcn] at h
                cases ha : unpack O cx { field := f.name, holder := cls } t x with
                | error e' => rw [ha] at h; cases h
                | ok a => rw [ha] at h; exact tailMem _ h hmem

/-- a member that is not a constructor parameter is never read from the input -/
theorem noninit_never_read (O : Oracle) (cx : Cx) (cls : String) (cfg : Cfg) (f : FieldDef) (t : Ty)
    (fs : List (FieldDef × Ty)) (kvs kvs' : List (V × V)) (hi : f.init = false)
    (hrest : unpackFields O cx cls cfg fs kvs = unpackFields O cx cls cfg fs kvs') :
    unpackFields O cx cls cfg ((f, t) :: fs) kvs = unpackFields O cx cls cfg ((f, t) :: fs) kvs' := by
  rw [unpackFields, unpackFields]
  simp [hi, hrest]

end Mashu
