/-
  C17 — generated code is closed and binds every type by identity.

  * `refs_resolve_partial`: after ANY sequence of `setdefault` registrations into an empty
    namespace, every registered alias resolves, and it resolves to the very object it was
    registered for — PROVIDED the naming is injective on the registered objects
    (`NamesInjective`).  The pinned tree does not guarantee that premise (finding K6):
    `shared_name_misbinds` is the decided witness — two distinct objects under one rendered name,
    the second reference resolves to the first object; `cleanId_collision` shows how distinct
    qualified names collapse (`A.B` vs `A_B`).
  * `cleanId_identifier`: whatever the type name, the alias is a valid identifier (no character
    outside `\w`, no leading digit, never empty) — an alias can never break the generated source.
  * `dotted_resolves`: a dotted reference resolves to the intended object iff the module registry
    maps the rendered path to it (`Importable`) — the model-free check of this premise on the
    real modules is part of the tie.
  Closedness of the ACTUAL generated functions (every global they load is bound, on every path,
  executed or not) is decided per program by the harness from the captured code objects.
-/
import Mashu.Namespace
namespace Mashu.Namespace

theorem lookup_setdefault (g : List (String × Obj)) (n m : String) (o : Obj) :
    lookup (setdefault g n o) m = match lookup g m with
      | some p => some p
      | none => if n = m then some o else none := by
  induction g with
  | nil =>
    simp only [setdefault, lookup]
  | cons x rest ih =>
    obtain ⟨k, p⟩ := x
    simp only [setdefault]
    by_cases h1 : k = n
    · subst h1
      simp only [if_true, lookup]
      by_cases h2 : k = m
      · simp [h2]
      · simp only [h2, if_false]
        cases lookup rest m <;> simp [h2]
    · simp only [h1, if_false, lookup]
      by_cases h2 : k = m
      · simp [h2]
      · simp only [h2, if_false]
        exact ih

/-- an existing binding is never changed by later registrations -/
theorem lookup_register_of_some (regs : List (String × Obj)) : ∀ (g : List (String × Obj)) (m : String) (p : Obj),
    lookup g m = some p → lookup (register g regs) m = some p := by
  induction regs with
  | nil => intro g m p h; exact h
  | cons r rest ih =>
    intro g m p h
    simp only [register, List.foldl_cons]
    apply ih
    rw [lookup_setdefault, h]

/-- the same rendered name is only ever used for one object -/
def NamesInjective (regs : List (String × Obj)) : Prop :=
  ∀ r1 ∈ regs, ∀ r2 ∈ regs, r1.1 = r2.1 → r1.2 = r2.2

/-- every name bound in `g` is bound to an object compatible with `regs` -/
def Agrees (g regs : List (String × Obj)) : Prop :=
  ∀ n p, lookup g n = some p → ∀ r ∈ regs, r.1 = n → r.2 = p

theorem register_resolves (regs : List (String × Obj)) : ∀ (g : List (String × Obj)),
    NamesInjective regs → Agrees g regs → ∀ r ∈ regs, lookup (register g regs) r.1 = some r.2 := by
  induction regs with
  | nil => intro g _ _ r hr; simp at hr
  | cons x rest ih =>
    intro g hinj hag r hr
    simp only [register, List.foldl_cons]
    have hinj' : NamesInjective rest := fun a ha b hb => hinj a (by simp [ha]) b (by simp [hb])
    have hag' : Agrees (setdefault g x.1 x.2) rest := by
      intro n p hl q hq hn
      rw [lookup_setdefault] at hl
      cases hg : lookup g n with
      | some p' =>
        simp only [hg, Option.some.injEq] at hl
        subst hl
        exact hag n p' hg q (by simp [hq]) hn
      | none =>
        simp only [hg] at hl
        by_cases hx : x.1 = n
        · simp only [hx, if_true, Option.some.injEq] at hl
          subst hl
          exact hinj q (by simp [hq]) x (by simp) (by rw [hn, hx])
        · simp [hx] at hl
    simp only [List.mem_cons] at hr
    rcases hr with rfl | hr
    · -- the head: bound now (or earlier, to the same object) and never changed afterwards
      have : lookup (setdefault g r.1 r.2) r.1 = some r.2 := by
        rw [lookup_setdefault]
        cases hg : lookup g r.1 with
        | some p' =>
          simp only
          rw [hag r.1 p' hg r (by simp) rfl]
        | none => simp
      exact lookup_register_of_some rest _ _ _ this
    · exact ih _ hinj' hag' r hr

/-- **C17 (partial: needs injective naming).**  Every alias registered during a build resolves to
    the very object it was registered for. -/
theorem refs_resolve_partial (regs : List (String × Obj)) (h : NamesInjective regs) :
    ∀ r ∈ regs, resolve (register [] regs) [] (.alias r.1) = some r.2 := by
  intro r hr
  simp only [resolve]
  exact register_resolves regs [] h (by intro n p hl; simp [lookup] at hl) r hr

/-- without the premise the second object is misbound: the full statement is false of the model -/
theorem shared_name_misbinds :
    resolve (register [] [("mod_A", 1), ("mod_A", 2)]) [] (.alias "mod_A") = some 1 := by decide

/-- … and the premise does fail on the pinned tree: `clean_id` maps distinct qualified names of
    local classes to one alias -/
theorem cleanId_collision :
    cleanId Char.isAlphanum Char.isDigit (fun c => c.isAlphanum || c == '_') "f.<locals>.A.B".toList
      = cleanId Char.isAlphanum Char.isDigit (fun c => c.isAlphanum || c == '_') "f.<locals>.A_B".toList := by
  decide

/-- the alias is never empty, consists of identifier characters only and does not start with a
    digit — whatever the (dynamically chosen, possibly exotic) class name was -/
theorem cleanId_identifier (isWord isDigit isIdCont : Char → Bool) (hC : isIdCont '_' = true) (s : List Char) :
    cleanId isWord isDigit isIdCont s ≠ []
    ∧ (∀ c ∈ cleanId isWord isDigit isIdCont s, isIdCont c = true)
    ∧ (∀ c rest, cleanId isWord isDigit isIdCont s = c :: rest → s ≠ [] → (∀ d, s.head? = some d → isDigit d = true) → c = '_') := by
  cases s with
  | nil =>
    refine ⟨by simp [cleanId], ?_, ?_⟩
    · intro c hc; simp [cleanId] at hc; rw [hc]; exact hC
    · intro c rest _ h; exact absurd rfl h
  | cons c t =>
    simp only [cleanId]
    refine ⟨?_, ?_, ?_⟩
    · by_cases hd : isDigit c = true <;> simp [hd]
    · intro x hx
      obtain ⟨y, _, rfl⟩ := List.mem_map.mp hx
      by_cases hy : isIdCont y = true
      · simp [hy]
      · simp [hy, hC]
    · intro x rest he _ hdig
      have hd := hdig c rfl
      simp only [hd, if_true, List.map_cons, hC, List.cons.injEq] at he
      exact he.1.symm

/-- a dotted reference resolves to the intended object exactly when the module registry maps the
    rendered path to it -/
theorem dotted_resolves (g : List (String × Obj)) (mods : Modules) (path : String) (o : Obj) :
    resolve g mods (.dotted path) = some o ↔ lookup mods path = some o := by
  simp [resolve]

end Mashu.Namespace
