/-
  C13 — dialects are isolated per call and honoured uniformly by every codec.

  * `call_history_independent`: for every history of class definitions and calls (any classes,
    any parent/child relation, any formats, any dialects, any order), a call `c.method(dialect=D)`
    executes the method compiled from exactly (c, D), and a call without dialect executes the
    method compiled from (c, no dialect): what was called before — on the class, its parents or
    its subclasses, with this or other dialects — is irrelevant, and dialect calls never replace a
    default method.  Proved for the cache-creation guard extracted from the source on this run
    (`'<cache>' in cls.__dict__`); `hasattr_guard_leaks` is the decided witness that the
    look-alike guard `hasattr(cls, '<cache>')` breaks exactly this.
  * `dialect_arg_eq_config_dialect_option` / `_strategy`: with the lookup orders extracted from
    the source, a dialect passed to the call is found exactly where a `Config.dialect` would be
    (for a class that has none of its own) — options and strategies.
  * `merge_covers_every_option`, `merge_strategy`: `Dialect.merge` (used by every format codec to
    put the user's default_dialect on top of the format's own) carries every Dialect option and,
    per type key and direction, the user's registration if there is one, else the format's; hence
    `codec_eq_mixin_stack`: a format codec with default_dialect=D sees the same options as the
    format mixin called with dialect=D.
-/
import Mashu.Cache
import Mashu.ToDict
import Mashu.Resolve
import Mashu.Generated
import Mashu.Props.C08
import Mashu.Props.C10
namespace Mashu.Cache

/-! ### association lists -/

theorem lk_setAssoc {α β} [DecidableEq α] (l : List (α × β)) (a a' : α) (b : β) :
    lk (setAssoc l a b) a' = if a = a' then some b else lk l a' := by
  induction l with
  | nil => simp [setAssoc, lk]
  | cons x t ih =>
    obtain ⟨x, y⟩ := x
    simp only [setAssoc]
    by_cases hx : x = a
    · subst hx
      simp only [if_true, lk]
      by_cases h : x = a' <;> simp [h]
    · simp only [hx, if_false, lk, ih]
      by_cases h1 : x = a'
      · subst h1
        have : ¬ a = x := fun h => hx h.symm
        simp [this]
      · simp [h1]

/-! ### the state -/

def ids (s : State) : List ClassId := s.map (·.id)

def sig (s : State) : List (ClassId × Bool × List Slot) := s.map (fun k => (k.id, k.support, k.slots))

theorem find_mem {s : State} {c k rest} (h : find s c = some (k, rest)) : k ∈ s ∧ k.id = c := by
  induction s with
  | nil => simp [find] at h
  | cons x t ih =>
    simp only [find] at h
    by_cases hx : x.id = c
    · simp only [hx, if_true, Option.some.injEq, Prod.mk.injEq] at h
      exact ⟨by simp [h.1], h.1 ▸ hx⟩
    · simp only [hx, if_false] at h
      exact ⟨List.mem_cons_of_mem _ (ih h).1, (ih h).2⟩

theorem find_none {s : State} {c} (h : find s c = none) : c ∉ ids s := by
  induction s with
  | nil => simp [ids]
  | cons x t ih =>
    simp only [find] at h
    by_cases hx : x.id = c
    · simp [hx] at h
    · simp only [hx, if_false] at h
      simp only [ids, List.map_cons, List.mem_cons, not_or]
      exact ⟨fun e => hx e.symm, ih h⟩

theorem lk_sig (s : State) (c : ClassId) :
    lk (sig s) c = (find s c).map (fun kr => (kr.1.support, kr.1.slots)) := by
  induction s with
  | nil => simp [sig, lk, find]
  | cons x t ih =>
    simp only [sig, List.map_cons, lk, find]
    by_cases hx : x.id = c
    · simp [hx]
    · simp only [hx, if_false]
      exact ih

theorem lookupCache_own {s : State} {c k rest sl es} (h : find s c = some (k, rest))
    (hc : lk k.caches sl = some es) : lookupCache s c sl = some (c, es) := by
  induction s with
  | nil => simp [find] at h
  | cons x t ih =>
    simp only [find] at h
    simp only [lookupCache]
    by_cases hx : x.id = c
    · simp only [hx, if_true, Option.some.injEq, Prod.mk.injEq] at h
      simp only [hx, if_true]
      rw [h.1, hc, ← hx, h.1]
    · simp only [hx, if_false] at h
      simp only [hx, if_false]
      exact ih h

theorem lookupDefault_own {s : State} {c k rest sl m} (h : find s c = some (k, rest))
    (hc : lk k.defaults sl = some m) : lookupDefault s c sl = some m := by
  induction s with
  | nil => simp [find] at h
  | cons x t ih =>
    simp only [find] at h
    simp only [lookupDefault]
    by_cases hx : x.id = c
    · simp only [hx, if_true, Option.some.injEq, Prod.mk.injEq] at h
      simp only [hx, if_true]
      rw [h.1, hc]
    · simp only [hx, if_false] at h
      simp only [hx, if_false]
      exact ih h

theorem find_modify {s : State} {c : ClassId} (f : Cls → Cls) (hf : ∀ k, (f k).id = k.id) :
    find (modify s c f) c = (find s c).map (fun kr => (f kr.1, modify kr.2 c f)) := by
  induction s with
  | nil => simp [modify, find]
  | cons x t ih =>
    simp only [modify, List.map_cons, find]
    by_cases hx : x.id = c
    · simp [hx, hf, modify]
    · simp only [hx, if_false]
      exact ih

theorem modify_fresh {s : State} {c : ClassId} (f : Cls → Cls) (h : c ∉ ids s) : modify s c f = s := by
  induction s with
  | nil => rfl
  | cons x t ih =>
    simp only [ids, List.map_cons, List.mem_cons, not_or] at h
    have hx : ¬ x.id = c := fun e => h.1 e.symm
    simp only [modify, List.map_cons, hx, if_false, List.cons.injEq, true_and]
    exact ih h.2

theorem mem_modify {s : State} {c : ClassId} {f : Cls → Cls} {k' : Cls} (h : k' ∈ modify s c f) :
    k' ∈ s ∨ ∃ k ∈ s, k.id = c ∧ k' = f k := by
  simp only [modify, List.mem_map] at h
  obtain ⟨k, hk, rfl⟩ := h
  by_cases hx : k.id = c
  · simp only [hx, if_true]
    exact Or.inr ⟨k, hk, hx, rfl⟩
  · simp only [hx, if_false]
    exact Or.inl hk

/-! ### the invariant -/

/-- (a) every cached method was compiled from the class that owns the cache and from the dialect
    it is filed under; (b) a class that supports dialects has its own cache for each of its
    slots; (c) the default method of each slot was compiled from the class itself -/
def ClsOk (k : Cls) : Prop :=
  (∀ sl es d m, lk k.caches sl = some es → lk es d = some m → m = ⟨k.id, some d⟩)
  ∧ (k.support = true → ∀ sl, k.slots.contains sl = true → (lk k.caches sl).isSome = true)
  ∧ (∀ sl, k.slots.contains sl = true → lk k.defaults sl = some ⟨k.id, none⟩)

def Inv (s : State) : Prop := ∀ k ∈ s, ClsOk k

/-- the cache update performed by `cls.<cache>[dialect] = method` -/
def storeUpd (sl : Slot) (d : DialectId) (m : Method) (k : Cls) : Cls :=
  { k with caches := k.caches.map (fun e => if e.1 = sl then (e.1, setAssoc e.2 d m) else e) }

theorem lk_storeUpd (caches : List (Slot × List (DialectId × Method))) (sl sl' : Slot) (d : DialectId) (m : Method) :
    lk (caches.map (fun e => if e.1 = sl then (e.1, setAssoc e.2 d m) else e)) sl'
      = (lk caches sl').map (fun es => if sl' = sl then setAssoc es d m else es) := by
  induction caches with
  | nil => simp [lk]
  | cons x t ih =>
    obtain ⟨a, es⟩ := x
    simp only [List.map_cons, lk]
    by_cases ha : a = sl
    · subst ha
      simp only [if_true, lk]
      by_cases h2 : a = sl'
      · subst h2; simp
      · simp only [h2, if_false]; exact ih
    · simp only [ha, if_false, lk]
      by_cases h2 : a = sl'
      · subst h2; simp [ha]
      · simp only [h2, if_false]; exact ih

theorem clsOk_storeUpd {k : Cls} {sl d} (h : ClsOk k) : ClsOk (storeUpd sl d ⟨k.id, some d⟩ k) := by
  obtain ⟨ha, hb, hc⟩ := h
  refine ⟨?_, ?_, hc⟩
  · intro sl' es d' m h1 h2
    simp only [storeUpd, lk_storeUpd] at h1
    cases hq : lk k.caches sl' with
    | none => simp [hq] at h1
    | some es0 =>
      simp only [hq, Option.map_some, Option.some.injEq] at h1
      by_cases hs : sl' = sl
      · simp only [hs, if_true] at h1
        subst h1
        rw [lk_setAssoc] at h2
        by_cases hd : d = d'
        · simp only [hd, if_true, Option.some.injEq] at h2
          rw [← h2, hd]
          rfl
        · simp only [hd, if_false] at h2
          exact ha sl' es0 d' m hq h2
      · simp only [hs, if_false] at h1
        rw [← h1] at h2
        exact ha sl' es0 d' m hq h2
  · intro hs sl' hsl
    have := hb hs sl' hsl
    simp only [storeUpd, lk_storeUpd]
    cases hq : lk k.caches sl' with
    | none => simp [hq] at this
    | some es0 => simp

/-! ### class creation -/

/-- what compiling one slot's default method does to the class being created -/
def addCache (sup : Bool) (sl : Slot) (k : Cls) : Cls :=
  if sup && !(lk k.caches sl).isSome then { k with caches := (sl, []) :: k.caches } else k

def setDefault (c : ClassId) (sl : Slot) (k : Cls) : Cls :=
  { k with defaults := setAssoc k.defaults sl ⟨c, none⟩ }

def defStep (c : ClassId) (sup : Bool) (k : Cls) (sl : Slot) : Cls := setDefault c sl (addCache sup sl k)

theorem modify_cons_self {s : State} {k : Cls} {c} (f : Cls → Cls) (hid : k.id = c) (hf : c ∉ ids s) :
    modify (k :: s) c f = f k :: s := by
  have := modify_fresh (s := s) f hf
  simp only [modify] at this
  simp only [modify, List.map_cons, hid, if_true, this]

theorem addCache_id (sup sl k) : (addCache sup sl k).id = k.id := by
  simp only [addCache]; split <;> rfl

theorem compileInto_define {s : State} {k : Cls} {c sl sup} (hid : k.id = c) (hf : c ∉ ids s) :
    compileInto true (k :: s) c sl sup none = defStep c sup k sl :: s := by
  have h1 : (if sup = true then ensureCache true (k :: s) c sl else k :: s) = addCache sup sl k :: s := by
    cases sup with
    | false => simp [addCache]
    | true =>
      simp only [if_true, ensureCache, find, hid, addCache, Bool.true_and]
      cases hq : (lk k.caches sl).isSome with
      | true => simp
      | false =>
        simp only [Bool.false_eq_true, if_false, Bool.not_false, if_true]
        rw [modify_cons_self _ hid hf]
        simp [hid]
  simp only [compileInto, h1]
  rw [modify_cons_self _ (by rw [addCache_id]; exact hid) hf]
  rfl

@[simp] theorem setDefault_caches (c sl k) : (setDefault c sl k).caches = k.caches := rfl
@[simp] theorem setDefault_support (c sl k) : (setDefault c sl k).support = k.support := rfl
@[simp] theorem setDefault_slots (c sl k) : (setDefault c sl k).slots = k.slots := rfl
@[simp] theorem setDefault_id (c sl k) : (setDefault c sl k).id = k.id := rfl
@[simp] theorem setDefault_defaults (c sl k) : (setDefault c sl k).defaults = setAssoc k.defaults sl ⟨c, none⟩ := rfl
@[simp] theorem addCache_support (sup sl k) : (addCache sup sl k).support = k.support := by
  simp only [addCache]; split <;> rfl
@[simp] theorem addCache_slots (sup sl k) : (addCache sup sl k).slots = k.slots := by
  simp only [addCache]; split <;> rfl
@[simp] theorem addCache_defaults (sup sl k) : (addCache sup sl k).defaults = k.defaults := by
  simp only [addCache]; split <;> rfl

theorem lk_addCache (sup sl k) (sl' : Slot) :
    lk (addCache sup sl k).caches sl'
      = if (sup && !(lk k.caches sl).isSome) = true ∧ sl = sl' then some [] else lk k.caches sl' := by
  simp only [addCache]
  by_cases h : (sup && !(lk k.caches sl).isSome) = true
  · simp only [h, if_true, lk, true_and]
  · simp only [h, if_false, false_and]
    rfl

theorem defStep_id (c sup k sl) : (defStep c sup k sl).id = k.id := by
  simp only [defStep, setDefault_id, addCache_id]

theorem defineCls_eq {s : State} {c sup} (slots : List Slot) (k : Cls) (hid : k.id = c) (hf : c ∉ ids s) :
    slots.foldl (fun st sl => compileInto true st c sl sup none) (k :: s)
      = slots.foldl (defStep c sup) k :: s := by
  induction slots generalizing k with
  | nil => rfl
  | cons sl t ih =>
    simp only [List.foldl_cons]
    rw [compileInto_define hid hf]
    exact ih _ (by rw [defStep_id]; exact hid)

/-- the facts about a class under construction that every `defStep` preserves -/
structure Building (c : ClassId) (sup : Bool) (slots0 : List Slot) (k : Cls) : Prop where
  id : k.id = c
  support : k.support = sup
  slots : k.slots = slots0
  empty : ∀ sl es, lk k.caches sl = some es → es = []

theorem building_defStep {c sup slots0 k} (sl : Slot) (h : Building c sup slots0 k) : Building c sup slots0 (defStep c sup k sl) := by
  obtain ⟨h1, h2, h3, h4⟩ := h
  refine ⟨by rw [defStep_id]; exact h1, ?_, ?_, ?_⟩
  · simp only [defStep, setDefault_support, addCache_support]; exact h2
  · simp only [defStep, setDefault_slots, addCache_slots]; exact h3
  · intro sl' es he
    simp only [defStep, setDefault_caches, lk_addCache] at he
    split at he
    · simp only [Option.some.injEq] at he; exact he.symm
    · exact h4 sl' es he

/-- once a slot has been compiled its cache and default stay -/
def Done (c : ClassId) (sup : Bool) (sl : Slot) (k : Cls) : Prop :=
  (sup = true → (lk k.caches sl).isSome = true) ∧ lk k.defaults sl = some ⟨c, none⟩

theorem done_defStep_self (c sup k sl) : Done c sup sl (defStep c sup k sl) := by
  refine ⟨?_, ?_⟩
  · intro hs
    subst hs
    simp only [defStep, setDefault_caches, lk_addCache, Bool.true_and, and_true]
    cases hq : (lk k.caches sl).isSome with
    | true => simp [hq]
    | false => simp
  · simp only [defStep, setDefault_defaults, lk_setAssoc, if_true]

theorem done_defStep_other {c sup k sl} (sl' : Slot) (h : Done c sup sl k) : Done c sup sl (defStep c sup k sl') := by
  obtain ⟨h1, h2⟩ := h
  refine ⟨?_, ?_⟩
  · intro hs
    have := h1 hs
    simp only [defStep, setDefault_caches, lk_addCache]
    split
    · rfl
    · exact this
  · simp only [defStep, setDefault_defaults, addCache_defaults, lk_setAssoc]
    split
    · rfl
    · exact h2

theorem fold_defStep {c sup slots0} (slots : List Slot) (k : Cls) (hb : Building c sup slots0 k) :
    Building c sup slots0 (slots.foldl (defStep c sup) k)
    ∧ (∀ sl, Done c sup sl k → Done c sup sl (slots.foldl (defStep c sup) k))
    ∧ (∀ sl ∈ slots, Done c sup sl (slots.foldl (defStep c sup) k)) := by
  induction slots generalizing k with
  | nil => exact ⟨hb, fun _ h => h, by simp⟩
  | cons x t ih =>
    simp only [List.foldl_cons]
    obtain ⟨i1, i2, i3⟩ := ih (defStep c sup k x) (building_defStep x hb)
    refine ⟨i1, fun sl h => i2 sl (done_defStep_other x h), ?_⟩
    intro sl hsl
    simp only [List.mem_cons] at hsl
    rcases hsl with rfl | hsl
    · exact i2 _ (done_defStep_self c sup k sl)
    · exact i3 sl hsl

theorem clsOk_new (c : ClassId) (parent : Option ClassId) (sup : Bool) (slots : List Slot) :
    let k0 : Cls := { id := c, parent := parent, support := sup, slots := slots, defaults := [], caches := [] }
    ClsOk (slots.foldl (defStep c sup) k0)
    ∧ (slots.foldl (defStep c sup) k0).id = c
    ∧ (slots.foldl (defStep c sup) k0).support = sup
    ∧ (slots.foldl (defStep c sup) k0).slots = slots := by
  intro k0
  have hb : Building c sup slots k0 := ⟨rfl, rfl, rfl, by intro sl es h; simp [k0, lk] at h⟩
  obtain ⟨b, _, d⟩ := fold_defStep slots k0 hb
  refine ⟨⟨?_, ?_, ?_⟩, b.id, b.support, b.slots⟩
  · intro sl es dd m h1 h2
    have := b.empty sl es h1
    subst this
    simp [lk] at h2
  · intro hs sl hsl
    rw [b.slots] at hsl
    have hm : sl ∈ slots := by simpa using hsl
    rw [b.support] at hs
    exact (d sl hm).1 hs
  · intro sl hsl
    rw [b.slots] at hsl
    have hm : sl ∈ slots := by simpa using hsl
    rw [b.id]
    exact (d sl hm).2

/-! ### one step -/

def FreshEv (s : State) : Event → Prop
  | .define c _ _ _ => c ∉ ids s
  | .call _ _ _ => True

def sigAfter (s : State) (e : Event) : List (ClassId × Bool × List Slot) := noteDefined (sig s) e

theorem step_ok (s : State) (e : Event) (hi : Inv s) (hf : FreshEv s e) :
    Inv (step true s e).1 ∧ (step true s e).2 = specOut (sigAfter s e) e
      ∧ sig (step true s e).1 = sigAfter s e := by
  cases e with
  | define c parent sup slots =>
    simp only [FreshEv] at hf
    simp only [step, defineCls, specOut, sigAfter, noteDefined]
    rw [defineCls_eq (c := c) slots { id := c, parent := parent, support := sup, slots := slots, defaults := [], caches := [] } rfl hf]
    obtain ⟨h1, h2, h3, h4⟩ := clsOk_new c parent sup slots
    refine ⟨?_, trivial, ?_⟩
    · intro k hk
      simp only [List.mem_cons] at hk
      rcases hk with rfl | hk
      · exact h1
      · exact hi k hk
    · simp only [sig, List.map_cons, h2, h3, h4]
  | call c sl d =>
    cases d with
    | none =>
      simp only [step, sigAfter, noteDefined, specOut, lk_sig]
      cases hq : find s c with
      | none => exact ⟨hi, by simp, by first | rfl | trivial⟩
      | some kr =>
        obtain ⟨k, rest⟩ := kr
        simp only [Option.map_some]
        obtain ⟨hk, hid⟩ := find_mem hq
        cases hsl : k.slots.contains sl with
        | false => exact ⟨hi, by simp, by first | rfl | trivial⟩
        | true =>
          simp only [Bool.not_true, Bool.false_eq_true, if_false, Option.isNone_none, Bool.true_or, Bool.and_true, if_true]
          have := (hi k hk).2.2 sl hsl
          rw [lookupDefault_own hq this, hid]
          exact ⟨hi, by first | rfl | trivial, by first | rfl | trivial⟩
    | some d =>
      simp only [step, sigAfter, noteDefined, specOut, lk_sig]
      cases hq : find s c with
      | none => exact ⟨hi, by simp, by first | rfl | trivial⟩
      | some kr =>
        obtain ⟨k, rest⟩ := kr
        simp only [Option.map_some]
        obtain ⟨hk, hid⟩ := find_mem hq
        cases hsup : k.support with
        | false => exact ⟨hi, by simp, by first | rfl | trivial⟩
        | true =>
          cases hsl : k.slots.contains sl with
          | false => exact ⟨hi, by simp, by first | rfl | trivial⟩
          | true =>
            simp only [Bool.not_true, Bool.or_self, Bool.false_eq_true, if_false, Option.isNone_some, Bool.false_or, Bool.and_self, if_true]
            obtain ⟨ha, hb, hc⟩ := hi k hk
            have hsome := hb hsup sl hsl
            cases hes : lk k.caches sl with
            | none => simp [hes] at hsome
            | some es =>
              rw [lookupCache_own hq hes]
              simp only
              cases hhit : lk es d with
              | some m =>
                have := ha sl es d m hes hhit
                simp only [this, hid]
                exact ⟨hi, by first | rfl | trivial, by first | rfl | trivial⟩
              | none =>
                simp only
                -- compile, store, fetch
                have hcomp : compileInto true s c sl true (some d) = modify s c (storeUpd sl d ⟨c, some d⟩) := by
                  simp only [compileInto, if_true, ensureCache, hq, hes, Option.isSome_some, storeInFound]
                  rw [lookupCache_own hq hes]
                  rfl
                rw [hcomp]
                have hfm := find_modify (s := s) (c := c) (storeUpd sl d ⟨c, some d⟩) (fun _ => rfl)
                rw [hq] at hfm
                simp only [Option.map_some] at hfm
                have hes' : lk (storeUpd sl d ⟨c, some d⟩ k).caches sl = some (setAssoc es d ⟨c, some d⟩) := by
                  simp only [storeUpd, lk_storeUpd, hes, Option.map_some, if_true]
                rw [lookupCache_own hfm hes']
                simp only [Option.bind_some, lk_setAssoc, if_true]
                refine ⟨?_, by first | rfl | trivial, ?_⟩
                · intro k' hk'
                  rcases mem_modify hk' with h | ⟨k0, hk0, hid0, rfl⟩
                  · exact hi k' h
                  · rw [← hid0]
                    exact clsOk_storeUpd (hi k0 hk0)
                · simp only [sig, modify, List.map_map]
                  apply List.map_congr_left
                  intro k0 _
                  simp only [Function.comp]
                  split <;> rfl

/-! ### every history -/

def Fresh : List ClassId → List Event → Prop
  | _, [] => True
  | seen, .define c _ _ _ :: es => c ∉ seen ∧ Fresh (c :: seen) es
  | seen, .call _ _ _ :: es => Fresh seen es

theorem ids_eq_sig (s : State) : ids s = (sig s).map (·.1) := by
  simp [ids, sig, List.map_map, Function.comp]

theorem run_eq_spec (s : State) (evs : List Event) (hi : Inv s) (hf : Fresh (ids s) evs) :
    run true s evs = runSpec (sig s) evs := by
  induction evs generalizing s with
  | nil => rfl
  | cons e es ih =>
    have hfe : FreshEv s e := by
      cases e with
      | define c p sup sl => exact hf.1
      | call c sl d => trivial
    obtain ⟨h1, h2, h3⟩ := step_ok s e hi hfe
    simp only [run, runSpec]
    simp only [sigAfter] at h2 h3
    rw [h2, ← h3]
    congr 1
    apply ih _ h1
    cases e with
    | define c p sup sl =>
      have : ids (step true s (.define c p sup sl)).1 = c :: ids s := by
        rw [ids_eq_sig, h3]; simp [noteDefined, ids_eq_sig]
      rw [this]; exact hf.2
    | call c sl d =>
      have : ids (step true s (.call c sl d)).1 = ids s := by
        rw [ids_eq_sig, h3]; simp [noteDefined, ids_eq_sig]
      rw [this]; exact hf

theorem guard_pinned : Mashu.Generated.cacheGuardOwnDict = true := by decide

/-- **C13, isolation.**  For every history that starts from nothing, with the cache guard as
    extracted from the source: each call runs the method compiled from exactly its own class and
    its own dialect argument. -/
theorem call_history_independent (evs : List Event) (hf : Fresh [] evs) :
    run Mashu.Generated.cacheGuardOwnDict [] evs = runSpec [] evs := by
  rw [guard_pinned]
  exact run_eq_spec [] evs (by intro k hk; simp at hk) hf

/-- corollary: calls with a dialect never alter the default behaviour — whatever happened before,
    a call without dialect runs the class's own default method -/
theorem default_unaltered (evs : List Event) (c : ClassId) (sl : Slot) (hf : Fresh [] (evs ++ [.call c sl none])) :
    (run true [] (evs ++ [.call c sl none])).getLast? = (runSpec [] (evs ++ [.call c sl none])).getLast? := by
  rw [run_eq_spec [] _ (by intro k hk; simp at hk) hf]
  rfl

/-- the look-alike guard `hasattr` leaks: the child's method ends up in the parent's cache and
    the parent then runs it -/
theorem hasattr_guard_leaks :
    let sl : Slot := ⟨"dict", false⟩
    run false [] [.define 0 none true [sl], .define 1 (some 0) true [sl], .call 1 sl (some 7), .call 0 sl (some 7)]
      = [.defined, .defined, .ran ⟨1, some 7⟩, .ran ⟨1, some 7⟩] := by decide

/-- non-vacuity: the same history under the real guard -/
example :
    let sl : Slot := ⟨"dict", false⟩
    run true [] [.define 0 none true [sl], .define 1 (some 0) true [sl], .call 1 sl (some 7), .call 0 sl (some 7), .call 0 sl none]
      = [.defined, .defined, .ran ⟨1, some 7⟩, .ran ⟨0, some 7⟩, .ran ⟨0, none⟩] := by decide

/-! ### Dialect.merge -/

theorem lk_filterMap_keys (keys : List String) (g : String → Option String) (o : String) :
    lk (keys.filterMap (fun k => (g k).map (fun v => (k, v)))) o = if o ∈ keys then g o else none := by
  induction keys with
  | nil => simp [lk]
  | cons k t ih =>
    simp only [List.filterMap_cons]
    cases hg : g k with
    | none =>
      simp only [Option.map_none, ih, List.mem_cons]
      by_cases h1 : o = k
      · subst h1; simp [hg]
      · simp [h1]
    | some v =>
      simp only [Option.map_some, lk, ih, List.mem_cons]
      by_cases h1 : k = o
      · subst h1; simp [hg]
      · have : ¬ o = k := fun e => h1 e.symm
        simp [h1, this]

theorem options_subset_mergeKeys : ∀ o ∈ Mashu.Generated.dialectOptions, o ∈ Mashu.Generated.mergeKeys := by decide

/-- **C13, uniform honouring.**  With the key tuple extracted from `Dialect.merge` on this run,
    the merged dialect carries EVERY option a Dialect can set: the user's value if set, else the
    format's. -/
theorem merge_covers_every_option (f u : Dialect) (o : String) (ho : o ∈ Mashu.Generated.dialectOptions) :
    lk (merge Mashu.Generated.mergeKeys f u).opts o = (lk u.opts o <|> lk f.opts o) := by
  simp only [merge]
  rw [lk_filterMap_keys Mashu.Generated.mergeKeys (fun k => lk u.opts k <|> lk f.opts k) o]
  simp [options_subset_mergeKeys o ho]

/-- a format codec given default_dialect=D (merge) sees the same options as the format mixin
    called with dialect=D (stacked lookup: call dialect first, format dialect last) -/
theorem codec_eq_mixin_stack (f u : Dialect) (o : String) (ho : o ∈ Mashu.Generated.dialectOptions) :
    lk (merge Mashu.Generated.mergeKeys f u).opts o = stacked u f o :=
  merge_covers_every_option f u o ho

/-- the witness of what goes wrong when the tuple misses an option (finding F2, fixed): the
    user's `namedtuple_as_dict` is lost -/
theorem merge_missing_key_drops :
    lk (merge ["omit_none", "omit_default", "no_copy_collections"] ⟨[], []⟩ ⟨[("namedtuple_as_dict", "True")], []⟩).opts
      "namedtuple_as_dict" = none := by decide

theorem lk_none_of_not_mem {α β} [DecidableEq α] (l : List (α × β)) (a : α) (h : a ∉ l.map (·.1)) : lk l a = none := by
  induction l with
  | nil => rfl
  | cons x t ih =>
    obtain ⟨x, y⟩ := x
    simp only [List.map_cons, List.mem_cons, not_or] at h
    have : ¬ x = a := fun e => h.1 e.symm
    simp only [lk, this, if_false]
    exact ih h.2

theorem lk_foldl_merge (l : List (String × Reg)) (acc : List (String × Reg)) (t : String) (hn : (l.map (·.1)).Nodup) :
    lk (l.foldl (fun acc e => setAssoc acc e.1 (mergeReg (lk acc e.1) e.2)) acc) t
      = match lk l t with
        | some r => some (mergeReg (lk acc t) r)
        | none => lk acc t := by
  induction l generalizing acc with
  | nil => simp [lk]
  | cons x l' ih =>
    obtain ⟨a, r⟩ := x
    simp only [List.map_cons, List.nodup_cons] at hn
    simp only [List.foldl_cons]
    rw [ih _ hn.2]
    simp only [lk_setAssoc, lk]
    by_cases h : a = t
    · subst h
      rw [lk_none_of_not_mem l' a hn.1]
      simp
    · simp only [h, if_false]

/-- per type key: a registration of the user's dialect is merged over the format's, a key the
    user's dialect does not mention keeps the format's registration -/
theorem merge_strategy (keys : List String) (f u : Dialect) (t : String) (hn : (u.strat.map (·.1)).Nodup) :
    lk (merge keys f u).strat t
      = match lk u.strat t with
        | some r => some (mergeReg (lk f.strat t) r)
        | none => lk f.strat t := by
  simp only [merge]
  exact lk_foldl_merge u.strat f.strat t hn

/-- a SerializationStrategy object answers both directions -/
def WholeTotal (r : Reg) : Prop := r.whole = true → r.ser.isSome = true ∧ r.de.isSome = true

/-- per type key AND direction the merged dialect answers what the user's dialect stacked on the
    format's would: the user's registration for that direction if any, else the format's
    (this is the clause repaired by the fix commit "Dialect.merge keeps the directions …") -/
theorem merge_strategy_dir (keys : List String) (f u : Dialect) (t : String) (unpack : Bool)
    (hn : (u.strat.map (·.1)).Nodup) (hw : ∀ r, lk u.strat t = some r → WholeTotal r) :
    (lk (merge keys f u).strat t).bind (·.get unpack)
      = ((lk u.strat t).bind (·.get unpack) <|> (lk f.strat t).bind (·.get unpack)) := by
  rw [merge_strategy keys f u t hn]
  cases hu : lk u.strat t with
  | none => simp
  | some r =>
    have hwr := hw r hu
    simp only [Option.bind_some, mergeReg]
    by_cases hwh : r.whole = true
    · obtain ⟨h1, h2⟩ := hwr hwh
      simp only [hwh, if_true, Reg.get]
      cases unpack with
      | true =>
        simp only [if_true]
        cases hd : r.de with
        | none => simp [hd] at h2
        | some m => simp
      | false =>
        simp only [Bool.false_eq_true, if_false]
        cases hd : r.ser with
        | none => simp [hd] at h1
        | some m => simp
    · simp only [hwh, if_false]
      cases hf : lk f.strat t with
      | none => simp
      | some rf =>
        simp only [Option.bind_some, Reg.get]
        cases unpack <;> simp

/-! ### a call dialect sits exactly where a Config.dialect would -/

open Mashu.ToDict in
/-- options: `get_dialect_or_config_option` with the extracted order -/
theorem dialect_arg_eq_config_dialect_option (x c f : Opt3) :
    resolve Mashu.Generated.optionLookupOrder { callDialect := x, configDialect := none, config := c, defaultDialect := f }
      = resolve Mashu.Generated.optionLookupOrder { callDialect := none, configDialect := x, config := c, defaultDialect := f } := by
  rw [Mashu.ToDict.resolve_order]
  cases x <;> simp [resolve, Sources.get, List.findSome?]

open Mashu.Resolve in
/-- strategies: the same for `iter_serialization_strategies` — for every type key order and with
    the extracted source order, moving the registrations of the call dialect into an (otherwise
    absent) Config.dialect changes nothing -/
theorem dialect_arg_eq_config_dialect_strategy (ko : List String) (d : Dir) (L : Levels)
    (hnone : ∀ k, L.keyed k "configDialect" = none) :
    resolveImpl ko Mashu.Generated.strategySourceOrder d L
      = resolveImpl ko Mashu.Generated.strategySourceOrder d
          { L with keyed := fun k s => if s = "callDialect" then none else if s = "configDialect" then L.keyed k "callDialect" else L.keyed k s } := by
  rw [Mashu.Resolve.source_order_pinned]
  simp only [resolveImpl, Levels.fieldOpt]
  cases d <;> (
    simp only []
    split
    · rfl
    · congr 1
      funext k
      simp [List.findSome?, hnone k])


end Mashu.Cache
