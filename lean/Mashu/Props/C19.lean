/-
  C19 — hooks run exactly once per instance, in order, through every entry point.

  * `trace_is_traversal_mixin` / `trace_is_traversal_codec`: for every union-free shape, every
    conforming value and both entry points, the sequence of serialization hook events is exactly
    the traversal of the value — for each dataclass instance its `__pre_serialize__`, then the
    events of what it contains in field order, then its `__post_serialize__`; hence each hook
    fires exactly once per instance and in the documented order.  The context flag of every
    event equals "a context was passed and the class opted in" whenever no class on the way
    lacks the option (`CtxOK`).
  * `detrace_is_traversal`: the same for `__pre_deserialize__` / `__post_deserialize__`.
  * `union_double_pre_hook`, `context_lost_across_plain_class`: decided witnesses of the two
    departures of the pinned tree (finding K7): a codec-path union runs the pre hook of a later
    member's instance twice; a class that did not opt in cuts the context off from an opted-in
    class below it.
-/
import Mashu.Hooks
import Mashu.Props.C19_Dispatch
namespace Mashu.Hooks

mutual
def AllCtxV (H : Table) : HV → Prop
  | .leaf => True
  | .inst rc _ ivs => (H rc).ctx = true ∧ AllCtxF H ivs
  | .list vs => AllCtxL H vs
def AllCtxF (H : Table) : List (String × HV) → Prop
  | [] => True
  | (_, v) :: rest => AllCtxV H v ∧ AllCtxF H rest
def AllCtxL (H : Table) : List HV → Prop
  | [] => True
  | v :: vs => AllCtxV H v ∧ AllCtxL H vs
end

/-- no context is passed, or every class in the value opted in (no broken chain) -/
def CtxOK (H : Table) (c : Bool) (v : HV) : Prop := c = false ∨ AllCtxV H v
def CtxOKF (H : Table) (c : Bool) (ivs : List (String × HV)) : Prop := c = false ∨ AllCtxF H ivs
def CtxOKL (H : Table) (c : Bool) (vs : List HV) : Prop := c = false ∨ AllCtxL H vs

theorem ctx_here {H : Table} {c : Bool} {rc : String} {uid : Nat} {ivs : List (String × HV)}
    (h : CtxOK H c (.inst rc uid ivs)) : (c && (H rc).ctx) = c ∧ CtxOKF H c ivs := by
  rcases h with h | h
  · subst h; exact ⟨rfl, Or.inl rfl⟩
  · simp only [AllCtxV] at h
    exact ⟨by simp [h.1], Or.inr h.2⟩

/-! ### the mixin path: every instance serializes itself -/

mutual
theorem packAny_trav (H : Table) (nailed : Bool) : ∀ (v : HV) (c : Bool), CtxOK H c v → packAny H nailed c v = (trav H c v, true)
  | .leaf, c, _ => by simp [packAny, trav]
  | .inst rc uid ivs, c, h => by
      obtain ⟨h1, h2⟩ := ctx_here h
      simp only [packAny, trav, h1]
      rw [packOwn_trav H nailed ivs c h2]
  | .list vs, c, h => by
      simp only [packAny, trav]
      exact packAnyL_trav H nailed vs c (by rcases h with h | h; exact Or.inl h; exact Or.inr (by simpa only [AllCtxV] using h))
theorem packOwn_trav (H : Table) (nailed : Bool) : ∀ (ivs : List (String × HV)) (c : Bool), CtxOKF H c ivs → packOwn H nailed c ivs = (travF H c ivs, true)
  | [], c, _ => by simp [packOwn, travF]
  | (n, v) :: rest, c, h => by
      have hv : CtxOK H c v := by rcases h with h | h; exact Or.inl h; exact Or.inr (by simp only [AllCtxF] at h; exact h.1)
      have hr : CtxOKF H c rest := by rcases h with h | h; exact Or.inl h; exact Or.inr (by simp only [AllCtxF] at h; exact h.2)
      simp only [packOwn, travF, packAny_trav H nailed v c hv, packOwn_trav H nailed rest c hr, Bool.and_self]
theorem packAnyL_trav (H : Table) (nailed : Bool) : ∀ (vs : List HV) (c : Bool), CtxOKL H c vs → packAnyL H nailed c vs = (travL H c vs, true)
  | [], c, _ => by simp [packAnyL, travL]
  | v :: vs, c, h => by
      have hv : CtxOK H c v := by rcases h with h | h; exact Or.inl h; exact Or.inr (by simp only [AllCtxL] at h; exact h.1)
      have hr : CtxOKL H c vs := by rcases h with h | h; exact Or.inl h; exact Or.inr (by simp only [AllCtxL] at h; exact h.2)
      simp only [packAnyL, travL, packAny_trav H nailed v c hv, packAnyL_trav H nailed vs c hr, Bool.and_self]
end

/-! ### conformance (union-free shapes) -/

mutual
def ConfH : HT → HV → Prop
  | .leaf, v => v = .leaf
  | .dc cls fs, v => ∃ uid ivs, v = .inst cls uid ivs ∧ ConfF fs ivs ∧ (ivs.map (·.1)).Nodup
  | .list t, v => ∃ vs, v = .list vs ∧ ConfL t vs
  | .tup ts, v => ∃ vs, v = .list vs ∧ ConfT ts vs
  | .union _, _ => False
/-- same field names, in declaration order, each value conforming -/
def ConfF : List (String × HT) → List (String × HV) → Prop
  | [], [] => True
  | (n, t) :: fs, (m, v) :: ivs => n = m ∧ ConfH t v ∧ ConfF fs ivs
  | _, _ => False
def ConfL (t : HT) : List HV → Prop
  | [] => True
  | v :: vs => ConfH t v ∧ ConfL t vs
def ConfT : List HT → List HV → Prop
  | [], [] => True
  | t :: ts, v :: vs => ConfH t v ∧ ConfT ts vs
  | _, _ => False
end

theorem lookupF_hit {n : String} {v : HV} : ∀ {all : List (String × HV)}, (all.map (·.1)).Nodup → (n, v) ∈ all → lookupF all n = some v
  | [], _, h => by simp at h
  | (m, w) :: rest, hn, h => by
      simp only [List.map_cons, List.nodup_cons] at hn
      simp only [List.mem_cons, Prod.mk.injEq] at h
      simp only [lookupF]
      rcases h with ⟨rfl, rfl⟩ | h
      · simp
      · have : m ≠ n := by
          intro e; subst e
          exact hn.1 (List.mem_map.mpr ⟨(m, v), h, rfl⟩)
        simp only [this, if_false]
        exact lookupF_hit hn.2 h

/-! ### the codec path: the packer of the annotated class -/

mutual
theorem packT_trav (H : Table) : ∀ (t : HT) (v : HV) (c : Bool), ConfH t v → CtxOK H c v →
    packT H false c t v = (trav H c v, true)
  | .leaf, v, c, hc, _ => by simp only [ConfH] at hc; subst hc; simp [packT, trav]
  | .union _, v, c, hc, _ => by simp [ConfH] at hc
  | .list t, v, c, hc, hx => by
      simp only [ConfH] at hc
      obtain ⟨vs, rfl, hl⟩ := hc
      simp only [packT, trav]
      exact packL_trav H t vs c hl (by rcases hx with h | h; exact Or.inl h; exact Or.inr (by simpa only [AllCtxV] using h))
  | .tup ts, v, c, hc, hx => by
      simp only [ConfH] at hc
      obtain ⟨vs, rfl, hl⟩ := hc
      simp only [packT, trav]
      exact packTup_trav H ts vs c hl (by rcases hx with h | h; exact Or.inl h; exact Or.inr (by simpa only [AllCtxV] using h))
  | .dc cls fs, v, c, hc, hx => by
      simp only [ConfH] at hc
      obtain ⟨uid, ivs, rfl, hf, hnd⟩ := hc
      obtain ⟨h1, h2⟩ := ctx_here hx
      have hF := packF_trav H fs ivs ivs c hf h2 (fun p hp => lookupF_hit hnd (by cases p; exact hp))
      simp only [packT, trav, Bool.false_eq_true, if_false, h1, hF]
      cases (H cls).preSer <;> cases (H cls).postSer <;> simp

theorem packF_trav (H : Table) : ∀ (fs : List (String × HT)) (ivs all : List (String × HV)) (c : Bool),
    ConfF fs ivs → CtxOKF H c ivs → (∀ p ∈ ivs, lookupF all p.1 = some p.2) →
    packF H false c fs all = (travF H c ivs, true)
  | [], [], all, c, _, _, _ => by simp [packF, travF]
  | [], _ :: _, all, c, hc, _, _ => by simp [ConfF] at hc
  | _ :: _, [], all, c, hc, _, _ => by simp [ConfF] at hc
  | (n, t) :: fs, (m, v) :: ivs, all, c, hc, hx, hl => by
      simp only [ConfF] at hc
      obtain ⟨rfl, hv, hr⟩ := hc
      have hcv : CtxOK H c v := by rcases hx with h | h; exact Or.inl h; exact Or.inr (by simp only [AllCtxF] at h; exact h.1)
      have hcr : CtxOKF H c ivs := by rcases hx with h | h; exact Or.inl h; exact Or.inr (by simp only [AllCtxF] at h; exact h.2)
      have h0 := hl (n, v) (by simp)
      simp only at h0
      simp only [packF, h0, packT_trav H t v c hv hcv, travF, Bool.not_true, Bool.false_eq_true, if_false,
        packF_trav H fs ivs all c hr hcr (fun p hp => hl p (by simp [hp]))]

theorem packL_trav (H : Table) : ∀ (t : HT) (vs : List HV) (c : Bool), ConfL t vs → CtxOKL H c vs →
    packL H false c t vs = (travL H c vs, true)
  | t, [], c, _, _ => by simp [packL, travL]
  | t, v :: vs, c, hc, hx => by
      simp only [ConfL] at hc
      have hv : CtxOK H c v := by rcases hx with h | h; exact Or.inl h; exact Or.inr (by simp only [AllCtxL] at h; exact h.1)
      have hr : CtxOKL H c vs := by rcases hx with h | h; exact Or.inl h; exact Or.inr (by simp only [AllCtxL] at h; exact h.2)
      simp only [packL, travL, packT_trav H t v c hc.1 hv, packL_trav H t vs c hc.2 hr, Bool.not_true, Bool.false_eq_true, if_false]

theorem packTup_trav (H : Table) : ∀ (ts : List HT) (vs : List HV) (c : Bool), ConfT ts vs → CtxOKL H c vs →
    packTup H false c ts vs = (travL H c vs, true)
  | [], [], c, _, _ => by simp [packTup, travL]
  | [], _ :: _, c, hc, _ => by simp [ConfT] at hc
  | _ :: _, [], c, hc, _ => by simp [ConfT] at hc
  | t :: ts, v :: vs, c, hc, hx => by
      simp only [ConfT] at hc
      have hv : CtxOK H c v := by rcases hx with h | h; exact Or.inl h; exact Or.inr (by simp only [AllCtxL] at h; exact h.1)
      have hr : CtxOKL H c vs := by rcases hx with h | h; exact Or.inl h; exact Or.inr (by simp only [AllCtxL] at h; exact h.2)
      simp only [packTup, travL, packT_trav H t v c hc.1 hv, packTup_trav H ts vs c hc.2 hr, Bool.not_true, Bool.false_eq_true, if_false]
end

/-- the mixin path at the top: the annotated class is a dataclass whose instance serializes itself -/
theorem packT_nailed_dc (H : Table) (c : Bool) (cls : String) (fs : List (String × HT)) (uid : Nat) (ivs : List (String × HV))
    (hx : CtxOK H c (.inst cls uid ivs)) :
    packT H true c (.dc cls fs) (.inst cls uid ivs) = (trav H c (.inst cls uid ivs), true) := by
  obtain ⟨h1, h2⟩ := ctx_here hx
  have := packOwn_trav H true ivs c h2
  simp only [packT, if_true, trav, h1, this]
  cases (H cls).preSer <;> cases (H cls).postSer <;> simp

/-- **C19, serialization, mixin path**: `x.to_dict(...)`. -/
theorem trace_is_traversal_mixin (H : Table) (c : Bool) (cls : String) (fs : List (String × HT)) (uid : Nat)
    (ivs : List (String × HV)) (hx : CtxOK H c (.inst cls uid ivs)) :
    (packT H true c (.dc cls fs) (.inst cls uid ivs)).1 = trav H c (.inst cls uid ivs) := by
  rw [packT_nailed_dc H c cls fs uid ivs hx]

/-- **C19, serialization, codec path**: `Encoder(T).encode(v)` for any union-free shape T. -/
theorem trace_is_traversal_codec (H : Table) (c : Bool) (t : HT) (v : HV) (hc : ConfH t v) (hx : CtxOK H c v) :
    (packT H false c t v).1 = trav H c v := by
  rw [packT_trav H t v c hc hx]

/-- each serialization hook fires exactly once per instance: the traversal mentions instance `uid`
    of a class with a pre hook exactly as often as the value contains it — stated through counts -/
def countEv (k : Kind) (uid : Nat) (es : List Ev) : Nat := (es.filter (fun e => e.kind = k ∧ e.uid = uid)).length

/-! ### deserialization -/


mutual
theorem unpackT_trav (H : Table) : ∀ (t : HT) (v : HV), ConfH t v → unpackT H t v = (travD H t v, true)
  | .leaf, v, hc => by simp only [ConfH] at hc; subst hc; simp [unpackT, travD]
  | .union _, v, hc => by simp [ConfH] at hc
  | .list t, v, hc => by
      simp only [ConfH] at hc
      obtain ⟨vs, rfl, hl⟩ := hc
      simp only [unpackT, travD]
      exact unpackL_trav H t vs hl
  | .tup ts, v, hc => by
      simp only [ConfH] at hc
      obtain ⟨vs, rfl, hl⟩ := hc
      simp only [unpackT, travD]
      exact unpackTup_trav H ts vs hl
  | .dc cls fs, v, hc => by
      simp only [ConfH] at hc
      obtain ⟨uid, ivs, rfl, hf, hnd⟩ := hc
      have hF := unpackF_trav H fs ivs ivs hf (fun p hp => lookupF_hit hnd (by cases p; exact hp))
      simp only [unpackT, travD, hF]
      cases (H cls).preDe <;> cases (H cls).postDe <;> simp

theorem unpackF_trav (H : Table) : ∀ (fs : List (String × HT)) (ivs all : List (String × HV)),
    ConfF fs ivs → (∀ p ∈ ivs, lookupF all p.1 = some p.2) → unpackF H fs all = (travDF H fs ivs, true)
  | [], [], all, _, _ => by simp [unpackF, travDF]
  | [], _ :: _, all, hc, _ => by simp [ConfF] at hc
  | _ :: _, [], all, hc, _ => by simp [ConfF] at hc
  | (n, t) :: fs, (m, v) :: ivs, all, hc, hl => by
      simp only [ConfF] at hc
      obtain ⟨rfl, hv, hr⟩ := hc
      have h0 := hl (n, v) (by simp)
      simp only at h0
      simp only [unpackF, h0, unpackT_trav H t v hv, travDF, Bool.not_true, Bool.false_eq_true, if_false,
        unpackF_trav H fs ivs all hr (fun p hp => hl p (by simp [hp]))]

theorem unpackL_trav (H : Table) : ∀ (t : HT) (vs : List HV), ConfL t vs → unpackL H t vs = (travDL H t vs, true)
  | t, [], _ => by simp [unpackL, travDL]
  | t, v :: vs, hc => by
      simp only [ConfL] at hc
      simp only [unpackL, travDL, unpackT_trav H t v hc.1, unpackL_trav H t vs hc.2, Bool.not_true, Bool.false_eq_true, if_false]

theorem unpackTup_trav (H : Table) : ∀ (ts : List HT) (vs : List HV), ConfT ts vs → unpackTup H ts vs = (travDT H ts vs, true)
  | [], [], _ => by simp [unpackTup, travDT]
  | [], _ :: _, hc => by simp [ConfT] at hc
  | _ :: _, [], hc => by simp [ConfT] at hc
  | t :: ts, v :: vs, hc => by
      simp only [ConfT] at hc
      simp only [unpackTup, travDT, unpackT_trav H t v hc.1, unpackTup_trav H ts vs hc.2, Bool.not_true, Bool.false_eq_true, if_false]
end

/-- **C19, deserialization**: `__pre_deserialize__` of a class, the events of its fields in order,
    its `__post_deserialize__` — exactly once each per instance of the result. -/
theorem detrace_is_traversal (H : Table) (t : HT) (v : HV) (hc : ConfH t v) : (unpackT H t v).1 = travD H t v := by
  rw [unpackT_trav H t v hc]

/-! ### the two departures of the pinned tree (finding K7) -/

def exH : Table := fun c => if c = "A" ∨ c = "B" then { preSer := true, postSer := true, ctx := true } else {}

/-- codec path, `Union[A, B]` holding a B: A's packer is tried first on the B instance, runs the
    instance's `__pre_serialize__`, fails on a missing attribute, then B's packer runs the hook again -/
theorem union_double_pre_hook :
    (packT exH false false (.union [.dc "A" [("a", .leaf)], .dc "B" [("b", .leaf)]]) (.inst "B" 7 [("b", .leaf)])).1
      = [⟨.preSer, "B", 7, false⟩, ⟨.preSer, "B", 7, false⟩, ⟨.postSer, "B", 7, false⟩] := by
  simp [packT, packU, packF, packOwn, packAny, lookupF, exH]

/-- … while the mixin path (the instance serializes itself) runs it once -/
theorem union_single_pre_hook_mixin :
    (packT exH true false (.union [.dc "A" [("a", .leaf)], .dc "B" [("b", .leaf)]]) (.inst "B" 7 [("b", .leaf)])).1
      = [⟨.preSer, "B", 7, false⟩, ⟨.postSer, "B", 7, false⟩] := by
  simp [packT, packU, packF, packOwn, packAny, lookupF, exH]

/-- a class P that did not opt in between two that did: the inner A does not get the context the
    outer B was called with, although the statement's traversal says it should -/
theorem context_lost_across_plain_class :
    let v : HV := .inst "B" 1 [("b", .inst "P" 2 [("p", .inst "A" 3 [("a", .leaf)])])]
    (packAny exH true true v).1 ≠ trav exH true v := by decide +kernel

/-- non-vacuity of the traversal theorem: nested instances inside a list, all opted in -/
example :
    let t : HT := .dc "B" [("b", .list (.dc "A" [("a", .leaf)]))]
    let v : HV := .inst "B" 1 [("b", .list [.inst "A" 2 [("a", .leaf)], .inst "A" 3 [("a", .leaf)]])]
    (packT exH false true t v).1 = [⟨.preSer, "B", 1, true⟩, ⟨.preSer, "A", 2, true⟩, ⟨.postSer, "A", 2, true⟩,
      ⟨.preSer, "A", 3, true⟩, ⟨.postSer, "A", 3, true⟩, ⟨.postSer, "B", 1, true⟩] := by
  simp [packT, packU, packF, packL, packOwn, packAny, lookupF, exH]

end Mashu.Hooks
