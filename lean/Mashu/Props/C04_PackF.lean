/-
  C04 (subclass instances in positions typed with the base class): with the owner guard every
  instance is packed by a method compiled for ITS OWN class, whatever was defined, compiled and
  packed before; without it an inherited method runs.
-/
import Mashu.PackF
import Mashu.Generated
namespace Mashu.PackF
open Mashu.Discr Mashu.DiscrF

/-- one step: a pack never runs another class's method -/
theorem step_own (st : State) (f : Fmt) (c : Nat) (o : Outcome)
    (h : (step true st (.pack f c)).2 = some o) : o = .packedBy c c ∨ o = .noMethod := by
  simp only [step] at h
  cases hm : methodOwner st.classes st.compiled f (st.classes.length + 1) c with
  | none => simp [hm] at h; exact Or.inr h.symm
  | some ow =>
      simp only [hm] at h
      by_cases he : (ow == c) = true
      · simp [he] at h; exact Or.inl h.symm
      · simp [he] at h; exact Or.inl h.symm

/-- **every history**: all outcomes of a guarded run are "packed by the instance's own class" (or the
    AttributeError of a class without any method for the format) -/
theorem run_own : ∀ (es : List Event) (st : State) (o : Outcome), o ∈ run true st es →
    (∃ c, o = .packedBy c c) ∨ o = .noMethod
  | [], _, _, h => by cases h
  | e :: es, st, o, h => by
      simp only [run] at h
      cases hr : (step true st e).2 with
      | none => rw [hr] at h; exact run_own es _ o h
      | some o' =>
          rw [hr] at h
          cases h with
          | head =>
              cases e with
              | define c => simp [step] at hr
              | compile f c => simp [step] at hr
              | pack f c =>
                  cases step_own st f c o hr with
                  | inl h1 => exact Or.inl ⟨c, h1⟩
                  | inr h2 => exact Or.inr h2
          | tail _ h' => exact run_own es _ o h'

/-- the pinned behaviour: Base compiled for format 1 through a holder, a Sub instance in that position
    is packed by BASE's method (its own members are dropped); with the guard by its own -/
theorem unguarded_runs_parent_method :
    run false {} [.define ⟨0, none, none⟩, .define ⟨1, some 0, none⟩, .compile 1 0, .pack 1 1] = [.packedBy 1 0]
    ∧ run true {} [.define ⟨0, none, none⟩, .define ⟨1, some 0, none⟩, .compile 1 0, .pack 1 1] = [.packedBy 1 1] := by
  constructor <;> decide

/-- after a guarded pack of a subclass instance the next one finds the method at once, and a deeper
    subclass is again given a method of its own (non-vacuity of `run_own` on a three-level chain) -/
example :
    run true {} [.define ⟨0, none, none⟩, .define ⟨1, some 0, none⟩, .define ⟨2, some 1, none⟩, .compile 1 0,
                 .pack 1 1, .pack 1 1, .pack 1 2, .pack 1 0, .pack 2 2]
      = [.packedBy 1 1, .packedBy 1 1, .packedBy 2 2, .packedBy 0 0, .noMethod] := by decide

/-- the current source has the guard (table regenerated from builder.py on every run) -/
theorem owner_guard_pinned : Mashu.Generated.packOwnerGuard = true := by decide

end Mashu.PackF
