import Mashu.Tz
import Mashu.Generated
namespace Mashu.Tz

/-- every whole-minute offset, as a list: -1439 … 1439 -/
def allOffsets : List Int := (List.range 2879).map (fun (n : Nat) => (n : Int) - 1439)

theorem tz_roundtrip_table : allOffsets.all (fun m => parseTz (tzname m) == some m) = true := by
  decide +kernel

theorem mem_allOffsets (m : Int) (h1 : -1440 < m) (h2 : m < 1440) : m ∈ allOffsets := by
  unfold allOffsets
  rw [List.mem_map]
  refine ⟨(m + 1439).toNat, ?_, ?_⟩
  · rw [List.mem_range]; omega
  · omega

/-- C01 (timezone leaf): `parse_timezone` is the inverse of `tzname` on every offset a
    `datetime.timezone` can carry (whole minutes). -/
theorem tz_roundtrip (m : Int) (h1 : -1440 < m) (h2 : m < 1440) : parseTz (tzname m) = some m := by
  have h := List.all_eq_true.mp tz_roundtrip_table m (mem_allOffsets m h1 h2)
  simpa using h

/-- the pre-fix parser loses the sign of every offset in (-60, 0) -/
theorem tz_old_loses_sign : parseCoreOld (tzname (-30)) = some 30 := by decide +kernel

/-- the regular expression the model's `parseCore` transcribes is the one in the source -/
theorem utc_pattern_pinned : Mashu.Generated.utcPatternCore = "^UTC(([+-][0-2][0-9]):([0-5][0-9]))?$" := by
  decide

example : parseTz (tzname (-345)) = some (-345) := tz_roundtrip _ (by omega) (by omega)
example : parseTz "UTC+24:00".toList = none := by decide +kernel
example : parseTz "UTC\n".toList = none := by decide +kernel
example : parseTzLenient "UTC\n".toList = some 0 := by decide +kernel   -- what `re.match` + `$` did before fix F47

/-- the whole string has to match (read from `parse_timezone` in /repo on this run) -/
theorem tz_fullmatch_pinned : Generated.tzParseFullMatch = true := by decide

end Mashu.Tz
