/-
  C10 (generic fields): the customization keys of a field of a specialised generic dataclass are
  computed from the fully substituted field type.
-/
import Mashu.Subst
import Mashu.Generated
namespace Mashu.Subst

theorem look_zip_map (f : Nat → GTy) : ∀ (ps : List Nat) (n : Nat), n ∈ ps → look (ps.zip (ps.map f)) n = some (f n)
  | [], _, h => by cases h
  | p :: ps, n, h => by
      simp only [List.map_cons, List.zip_cons_cons, look, List.find?_cons]
      by_cases hp : p = n
      · subst hp; simp
      · have hne : (p == n) = false := by simpa using hp
        simp only [hne]
        have hmem : n ∈ ps := by
          cases h with
          | head => exact absurd rfl hp
          | tail _ h' => exact h'
        have := look_zip_map f ps n hmem
        simpa [look] using this

mutual
  theorem subst_congr (σ τ : Sub) : ∀ (t : GTy), (∀ n ∈ vars t, (look σ n).getD (.var n) = (look τ n).getD (.var n)) → subst σ t = subst τ t
    | .var n, h => by simpa [subst, vars] using h n (by simp [vars])
    | .app c as, h => by
        simp only [subst]
        rw [substL_congr σ τ as (fun n hn => h n (by simpa [vars] using hn))]
    | .ann i t, h => by
        simp only [subst]
        rw [subst_congr σ τ i (fun n hn => h n (by simpa [vars] using hn))]
  theorem substL_congr (σ τ : Sub) : ∀ (ts : List GTy), (∀ n ∈ varsL ts, (look σ n).getD (.var n) = (look τ n).getD (.var n)) → substL σ ts = substL τ ts
    | [], _ => rfl
    | a :: as, h => by
        simp only [substL]
        rw [subst_congr σ τ a (fun n hn => h n (by simp [varsL, hn])),
            substL_congr σ τ as (fun n hn => h n (by simp [varsL, hn]))]
end

mutual
  theorem collectArg_sup : ∀ (t : GTy) (acc : List Nat), (∀ n ∈ acc, n ∈ collectArg t acc) ∧ (∀ n ∈ vars t, n ∈ collectArg t acc)
    | .var m, acc => by
        simp only [collectArg, vars]
        by_cases hc : acc.contains m = true
        · simp only [hc, if_true]
          exact ⟨fun n h => h, fun n h => by
            have : n = m := by simpa using h
            subst this; simpa using hc⟩
        · simp only [hc]
          exact ⟨fun n h => by simp [h], fun n h => by
            have : n = m := by simpa using h
            simp [this]⟩
    | .app _ as, acc => by simpa [collectArg, vars] using collectArgs_sup as acc
    | .ann i _, acc => by simpa [collectArg, vars] using collectArg_sup i acc
  theorem collectArgs_sup : ∀ (ts : List GTy) (acc : List Nat), (∀ n ∈ acc, n ∈ collectArgs ts acc) ∧ (∀ n ∈ varsL ts, n ∈ collectArgs ts acc)
    | [], acc => by simp [collectArgs, varsL]
    | a :: as, acc => by
        have h1 := collectArg_sup a acc
        have h2 := collectArgs_sup as (collectArg a acc)
        simp only [collectArgs, varsL, List.mem_append]
        exact ⟨fun n h => h2.1 n (h1.1 n h), fun n h => by
          cases h with
          | inl h => exact h2.1 n (h1.2 n h)
          | inr h => exact h2.2 n h⟩
end

/-- Python's positional subscription with the looked-up arguments is the substitution σ itself -/
theorem pySubscript_eq (σ : Sub) (t : GTy) (ps : List Nat) (h : ∀ n ∈ vars t, n ∈ ps) :
    pySubscript ps (ps.map (fun p => (look σ p).getD (.var p))) t = subst σ t := by
  unfold pySubscript
  apply subst_congr
  intro n hn
  rw [look_zip_map (fun p => (look σ p).getD (.var p)) ps n (h n hn)]
  simp

mutual
  theorem subst_nil : ∀ (t : GTy), subst [] t = t
    | .var n => by simp [subst, look]
    | .app c as => by simp only [subst]; rw [substL_nil as]
    | .ann i t => by simp only [subst]; rw [subst_nil i]
  theorem substL_nil : ∀ (ts : List GTy), substL [] ts = ts
    | [] => rfl
    | a :: as => by simp only [substL]; rw [subst_nil a, substL_nil as]
end

theorem substL_nil_vars (σ : Sub) (ts : List GTy) (h : varsL ts = []) : substL σ ts = ts := by
  rw [substL_congr σ [] ts (by intro n hn; rw [h] at hn; cases hn)]
  exact substL_nil ts

/-- **the code after the fix substitutes everywhere**: for every type expression (any nesting of
    constructors and Annotated) and every binding of the class's parameters -/
theorem substImpl_deep_eq_subst (σ : Sub) : ∀ (t : GTy), substImpl true σ t = subst σ t
  | .var n => by simp [substImpl, subst]
  | .ann i t => by
      simp only [substImpl, subst, if_true]
      rw [substImpl_deep_eq_subst σ i]
  | .app c as => by
      simp only [substImpl]
      by_cases he : (collectArgs as []).isEmpty = true
      · simp only [he, if_true, subst]
        have hnil : varsL as = [] := by
          have hs := (collectArgs_sup as []).2
          have : collectArgs as [] = [] := by simpa using he
          rw [this] at hs
          cases hv : varsL as with
          | nil => rfl
          | cons x xs => exact absurd (hs x (by simp [hv])) (by simp)
        rw [substL_nil_vars σ as hnil]
      · simp only [he]
        have := pySubscript_eq σ (.app c as) (collectArgs as []) (by
          intro n hn
          exact (collectArgs_sup as []).2 n (by simpa [vars] using hn))
        simpa using this

/-- the Annotated alias key of a specialised generic field is the alias of the substituted type -/
theorem annotated_key_substituted (σ : Sub) (t : GTy) (tag : String) :
    substImpl true σ (.ann t tag) = .ann (subst σ t) tag := by
  rw [substImpl_deep_eq_subst]; rfl

/-- the pinned code (shallow Annotated branch) left the variable in place: a registration under
    `Annotated[List[int], "k"]` could never match the key computed for `Annotated[List[T], "k"]` with T := int -/
theorem shallow_annotated_keeps_variable :
    substImpl false [(0, .app "int" [])] (.ann (.app "List" [.var 0]) "k") = .ann (.app "List" [.var 0]) "k"
    ∧ substImpl true [(0, .app "int" [])] (.ann (.app "List" [.var 0]) "k") = .ann (.app "List" [.app "int" []]) "k" := by
  constructor <;> rfl

/-- **the i-th argument binds the i-th parameter of the class's own list**, whenever the own list is a
    duplicate-free rearrangement of the collected variables — whatever order the bases mention them in -/
theorem bind_follows_own_list (own collected : List Nat) (args : List GTy) (hn : own.Nodup)
    (hl : own.length = collected.length) (h1 : own.all collected.contains = true) (h2 : collected.all own.contains = true)
    (i : Nat) (hi : i < own.length) (ha : i < args.length) :
    look (bindArgs (paramOrder true own collected) args) own[i] = some args[i] := by
  have hp : paramOrder true own collected = own := by
    simp [paramOrder, hl, h1, h2]
  rw [hp]
  clear hp h1 h2 hl
  induction own generalizing args i with
  | nil => simp at hi
  | cons p ps ih =>
    cases args with
    | nil => simp at ha
    | cons a as =>
      cases i with
      | zero => simp [bindArgs, look]
      | succ k =>
        have hk' : k < ps.length := by simpa using hi
        have hne : (p == ps[k]'hk') = false := by
          have : p ∉ ps := (List.nodup_cons.mp hn).1
          have hk : ps[k]'hk' ∈ ps := List.getElem_mem _
          simp only [beq_eq_false_iff_ne, ne_eq]
          intro he; exact this (he ▸ hk)
        have := ih as (List.nodup_cons.mp hn).2 k hk' (by simpa using ha)
        simpa [bindArgs, look, List.find?_cons, hne] using this

/-- the pinned order (first appearance in the bases): for `class Child(Base[S, T], Generic[T, S])` the
    arguments of `Child[int, str]` were bound S := int, T := str — the members' types swapped -/
theorem base_order_swaps_arguments :
    look (bindArgs (paramOrder false [0, 1] [1, 0]) [.app "int" [], .app "str" []]) 0 = some (.app "str" [])
    ∧ look (bindArgs (paramOrder true [0, 1] [1, 0]) [.app "int" [], .app "str" []]) 0 = some (.app "int" []) := by
  constructor <;> rfl

/-- resolve_type_params consults the class's own parameter list (read from helpers.py on this run) -/
theorem params_follow_own_list_pinned : Mashu.Generated.typeParamsFollowOwnList = true := by decide

/-- the current source takes the recursive branch (table regenerated from helpers.py on every run) -/
theorem subst_annotated_recursive_pinned : Mashu.Generated.substAnnotatedRecursive = true := by decide

end Mashu.Subst
