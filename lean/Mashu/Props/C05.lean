/-
  C05 — failures surface only as the documented exceptions and name the culprit.

  Over the model of the generated `from_dict` (Mashu.Unpack: `fromDict`, `unpackFields`,
  `findKey`), for EVERY input:
  * `documented_only`      — a dataclass deserializer never lets a raw Python exception escape:
                             the outcome is an instance, ValueError(not a dict), MissingField,
                             InvalidFieldValue or ExtraKeysError;
  * `first_bad_field`      — the error is that of the first field, in declaration order, whose
                             key is missing without default or whose value does not convert;
                             it carries the field name, the offending input value and the class;
  * `never_defaulted`      — in a returned instance a field whose key is present holds the
                             converted input (or None for a null in a nullable field), never the
                             default.
  Input immutability is vacuous in a pure model: it is monitored on the implementation.
-/
import Mashu.Lemmas.Inv
import Mashu.Generated
namespace Mashu

def Exc.documented : Exc → Bool
  | .py _ => false
  | .unionNoMatch _ => false
  | _ => true

/-- every member that is not a constructor parameter has a default (dataclasses require it
    for the instance to be usable) -/
def InitOK : List (FieldDef × Ty) → Prop
  | [] => True
  | (f, _) :: fs => (f.init = false → f.default.isSome) ∧ InitOK fs

theorem unpackFields_documented (O : Oracle) (cx : Cx) (cls : String) (cfg : Cfg) :
    ∀ (fs : List (FieldDef × Ty)) (kvs : List (V × V)) (e : Exc), InitOK fs →
      unpackFields O cx cls cfg fs kvs = .error e → e.documented = true
  | [], kvs, e, _, h => by rw [unpackFields] at h; cases h
  | (f, t) :: fs, kvs, e, hi, h => by
      simp only [InitOK] at hi
      rw [unpackFields] at h
      have recur := unpackFields_documented O cx cls cfg fs kvs
      have bindRest : ∀ (p : String × V),
          (do let r ← unpackFields O cx cls cfg fs kvs; pure (p :: r) : R (List (String × V))) = .error e →
          e.documented = true := by
        intro p hb
        cases hr : unpackFields O cx cls cfg fs kvs with
        | ok r => rw [hr] at hb; cases hb
        | error e' =>
          rw [hr] at hb
          have : e' = e := by simpa [bind, Except.bind] using hb
          subst this
          exact recur e' hi.2 hr
      by_cases hinit : (!f.init) = true
      · rw [if_pos hinit] at h
        cases hd : f.default with
        | none =>
          have := hi.1 (by simpa using hinit)
          simp [hd] at this
        | some dv => rw [hd] at h; exact bindRest _ h
      · rw [if_neg hinit] at h
        simp only [] at h
        cases hf : findKey cfg f kvs with
        | none =>
          rw [hf] at h
          cases hd : f.default with
          | none => rw [hd] at h; cases h; rfl
          | some dv => rw [hd] at h; exact bindRest _ h
        | some x =>
          rw [hf] at h
          simp only [] at h
          by_cases hui : t.unpackIdent = true
          · rw [if_pos hui] at h; exact bindRest _ h
          · rw [if_neg hui] at h
            by_cases hcn : (fieldCouldBeNone f t && isNone x) = true
            · rw [if_pos hcn] at h; exact bindRest _ h
            · rw [if_neg hcn] at h
              cases ha : unpack O cx { field := f.name, holder := cls } t x with
              | error e' => rw [ha] at h; cases h; rfl
              | ok a => rw [ha] at h; exact bindRest _ h

/-- **C05 (a)**: no raw Python exception leaves a dataclass deserializer, whatever the input. -/
theorem documented_only (O : Oracle) (cx : Cx) (fx : Fx) (cls : String) (cfg : Cfg)
    (fs : List (FieldDef × Ty)) (d : V) (e : Exc) (hi : InitOK fs)
    (hd : ∃ vals, defaultsOnly fs = some vals)
    (h : unpack O cx fx (.dc cls cfg fs) d = .error e) : e.documented = true := by
  rw [unpack] at h
  unfold fromDict at h
  simp only [] at h
  split at h
  · split at h
    · cases h; rfl
    · cases hr : unpackFields O { cx with ntAsDict := cfg.ntAsDict } cls cfg fs _ with
      | ok r => rw [hr] at h; cases h
      | error e' =>
        rw [hr] at h
        have : e' = e := by simpa [bind, Except.bind] using h
        subst this
        exact unpackFields_documented O _ cls cfg fs _ e' hi hr
  · cases h; rfl

/-- what can go wrong at one field, given the input mapping -/
inductive FieldBad (O : Oracle) (cx : Cx) (cls : String) (cfg : Cfg) (kvs : List (V × V)) (f : FieldDef) (t : Ty) : Exc → Prop
  | missing : f.init = true → findKey cfg f kvs = none → f.default = none →
      FieldBad O cx cls cfg kvs f t (.missingField f.name cls)
  | invalid (x : V) (e' : Exc) : f.init = true → findKey cfg f kvs = some x → t.unpackIdent = false →
      (fieldCouldBeNone f t && isNone x) = false →
      unpack O cx { field := f.name, holder := cls } t x = .error e' →
      FieldBad O cx cls cfg kvs f t (.invalidFieldValue f.name x cls)

/-- a field that is processed without error -/
def FieldGood (O : Oracle) (cx : Cx) (cls : String) (cfg : Cfg) (kvs : List (V × V)) (f : FieldDef) (t : Ty) : Prop :=
  ∀ e, ¬ FieldBad O cx cls cfg kvs f t e

/-- **C05 (b)**: the error of the field loop is the error of the FIRST bad field in declaration
    order, and it names that field, the offending input value and the holder class. -/
theorem first_bad_field (O : Oracle) (cx : Cx) (cls : String) (cfg : Cfg) :
    ∀ (fs : List (FieldDef × Ty)) (kvs : List (V × V)) (e : Exc), InitOK fs →
      unpackFields O cx cls cfg fs kvs = .error e →
      ∃ pre f t post, fs = pre ++ (f, t) :: post ∧ FieldBad O cx cls cfg kvs f t e ∧
        ∀ ft ∈ pre, FieldGood O cx cls cfg kvs ft.1 ft.2
  | [], kvs, e, _, h => by rw [unpackFields] at h; cases h
  | (f, t) :: fs, kvs, e, hi, h => by
      simp only [InitOK] at hi
      rw [unpackFields] at h
      -- when this field is fine the error comes from the rest and this field joins the good prefix
      have later : FieldGood O cx cls cfg kvs f t → ∀ (p : String × V),
          (do let r ← unpackFields O cx cls cfg fs kvs; pure (p :: r) : R (List (String × V))) = .error e →
          ∃ pre f' t' post, (f, t) :: fs = pre ++ (f', t') :: post ∧ FieldBad O cx cls cfg kvs f' t' e ∧
            ∀ ft ∈ pre, FieldGood O cx cls cfg kvs ft.1 ft.2 := by
        intro hgood p hb
        cases hr : unpackFields O cx cls cfg fs kvs with
        | ok r => rw [hr] at hb; cases hb
        | error e' =>
          rw [hr] at hb
          have : e' = e := by simpa [bind, Except.bind] using hb
          subst this
          obtain ⟨pre, f', t', post, hsplit, hbad, hpre⟩ := first_bad_field O cx cls cfg fs kvs e' hi.2 hr
          refine ⟨(f, t) :: pre, f', t', post, by simp [hsplit], hbad, ?_⟩
          intro ft hft
          cases hft with
          | head => exact hgood
          | tail _ h' => exact hpre ft h'
      by_cases hinit : (!f.init) = true
      · rw [if_pos hinit] at h
        have hgood : FieldGood O cx cls cfg kvs f t := by
          intro e' hb
          have hfi : f.init = false := by simpa using hinit
          cases hb with
          | missing h1 _ _ => simp [hfi] at h1
          | invalid _ _ h1 _ _ _ _ => simp [hfi] at h1
        cases hd : f.default with
        | none =>
          have := hi.1 (by simpa using hinit)
          simp [hd] at this
        | some dv => rw [hd] at h; exact later hgood _ h
      · rw [if_neg hinit] at h
        have hfi : f.init = true := by simpa using hinit
        simp only [] at h
        cases hf : findKey cfg f kvs with
        | none =>
          rw [hf] at h
          cases hd : f.default with
          | none =>
            rw [hd] at h; cases h
            exact ⟨[], f, t, fs, rfl, .missing hfi hf hd, fun _ h => by simp at h⟩
          | some dv =>
            rw [hd] at h
            have hgood : FieldGood O cx cls cfg kvs f t := by
              intro e' hb
              cases hb with
              | missing _ _ h3 => simp [hd] at h3
              | invalid _ _ _ h2 _ _ _ => simp [hf] at h2
            exact later hgood _ h
        | some x =>
          rw [hf] at h
          simp only [] at h
          by_cases hui : t.unpackIdent = true
          · rw [if_pos hui] at h
            have hgood : FieldGood O cx cls cfg kvs f t := by
              intro e' hb
              cases hb with
              | missing _ h2 _ => simp [hf] at h2
              | invalid _ _ _ _ h3 _ _ => simp [hui] at h3
            exact later hgood _ h
          · rw [if_neg hui] at h
            by_cases hcn : (fieldCouldBeNone f t && isNone x) = true
            · rw [if_pos hcn] at h
              have hgood : FieldGood O cx cls cfg kvs f t := by
                intro e' hb
                cases hb with
                | missing _ h2 _ => simp [hf] at h2
                | invalid x' _ _ h2 _ h4 _ =>
                  rw [hf] at h2; cases h2
                  simp [hcn] at h4
              exact later hgood _ h
            · rw [if_neg hcn] at h
              cases ha : unpack O cx { field := f.name, holder := cls } t x with
              | error e' =>
                rw [ha] at h; cases h
                exact ⟨[], f, t, fs, rfl,
                  .invalid x e' hfi hf (by simpa using hui) (by simpa using hcn) ha, fun _ h => by simp at h⟩
              | ok a =>
                rw [ha] at h
                have hgood : FieldGood O cx cls cfg kvs f t := by
                  intro e' hb
                  cases hb with
                  | missing _ h2 _ => simp [hf] at h2
                  | invalid x' _ _ h2 _ _ h5 =>
                    rw [hf] at h2; cases h2
                    rw [ha] at h5; cases h5
                exact later hgood _ h

/-- **C05 (c)**: invalid or present data is never silently replaced by a default: in a returned
    instance, a constructor field whose key is present in the input holds the input itself
    (identity types), None (a null in a nullable field) or the successfully converted input. -/
theorem never_defaulted (O : Oracle) (cx : Cx) (cls : String) (cfg : Cfg) :
    ∀ (fs : List (FieldDef × Ty)) (kvs : List (V × V)) (vals : List (String × V)),
      unpackFields O cx cls cfg fs kvs = .ok vals →
      ∀ ft ∈ fs, ft.1.init = true → ∀ x, findKey cfg ft.1 kvs = some x →
        ∃ v, (ft.1.name, v) ∈ vals ∧
          (v = x ∨ (isNone x = true ∧ v = .none) ∨ unpack O cx { field := ft.1.name, holder := cls } ft.2 x = .ok v)
  | [], kvs, vals, _, ft, hm, _, _, _ => by simp at hm
  | (f, t) :: fs, kvs, vals, h, ft, hm, hfi, x, hx => by
      rw [unpackFields] at h
      -- peel the head field off `h`, whatever branch it took
      have tailCase : ∀ (p : String × V) (rest : List (String × V)), vals = p :: rest →
          unpackFields O cx cls cfg fs kvs = .ok rest → ft ∈ fs →
          ∃ v, (ft.1.name, v) ∈ vals ∧
            (v = x ∨ (isNone x = true ∧ v = .none) ∨ unpack O cx { field := ft.1.name, holder := cls } ft.2 x = .ok v) := by
        intro p rest hv hrest hmem
        obtain ⟨v, hv1, hv2⟩ := never_defaulted O cx cls cfg fs kvs rest hrest ft hmem hfi x hx
        exact ⟨v, by rw [hv]; exact List.mem_cons_of_mem _ hv1, hv2⟩
      have split : ∀ (p : String × V),
          (do let r ← unpackFields O cx cls cfg fs kvs; pure (p :: r) : R (List (String × V))) = .ok vals →
          ∃ rest, vals = p :: rest ∧ unpackFields O cx cls cfg fs kvs = .ok rest := by
        intro p hb
        obtain ⟨rest, hrest, hb⟩ := bind_ok_inv hb
        simp [pure, Except.pure] at hb
        exact ⟨rest, hb.symm, hrest⟩
      by_cases hinit : (!f.init) = true
      · rw [if_pos hinit] at h
        have hne : ft ≠ (f, t) := by
          intro he; subst he
          have : f.init = false := by simpa using hinit
          simp [this] at hfi
        have hmem : ft ∈ fs := by
          cases hm with
          | head => exact absurd rfl hne
          | tail _ h' => exact h'
        cases hd : f.default with
        | none => rw [hd] at h; simp [raisePy] at h
        | some dv =>
          rw [hd] at h
          obtain ⟨rest, hv, hrest⟩ := split _ h
          exact tailCase _ rest hv hrest hmem
      · rw [if_neg hinit] at h
        simp only [] at h
        cases hm with
        | head =>
          -- the head field itself: its key is present
          simp only [] at hx
          rw [hx] at h
          simp only [] at h
          by_cases hui : t.unpackIdent = true
          · rw [if_pos hui] at h
            obtain ⟨rest, hv, _⟩ := split _ h
            exact ⟨x, by rw [hv]; simp, Or.inl rfl⟩
          · rw [if_neg hui] at h
            by_cases hcn : (fieldCouldBeNone f t && isNone x) = true
            · rw [if_pos hcn] at h
              obtain ⟨rest, hv, _⟩ := split _ h
              refine ⟨.none, by rw [hv]; simp, Or.inr (Or.inl ⟨?_, rfl⟩)⟩
              simp only [Bool.and_eq_true] at hcn; exact hcn.2
            · rw [if_neg hcn] at h
              cases ha : unpack O cx { field := f.name, holder := cls } t x with
              | error e' => rw [ha] at h; cases h
              | ok a =>
                rw [ha] at h
                obtain ⟨rest, hv, _⟩ := split _ h
                exact ⟨a, by rw [hv]; simp, Or.inr (Or.inr (by first | rfl | exact ha))⟩
        | tail _ hmem =>
          cases hf : findKey cfg f kvs with
          | none =>
            rw [hf] at h
            cases hd : f.default with
            | none => rw [hd] at h; cases h
            | some dv =>
              rw [hd] at h
              obtain ⟨rest, hv, hrest⟩ := split _ h
              exact tailCase _ rest hv hrest hmem
          | some y =>
            rw [hf] at h
            simp only [] at h
            by_cases hui : t.unpackIdent = true
            · rw [if_pos hui] at h
              obtain ⟨rest, hv, hrest⟩ := split _ h
              exact tailCase _ rest hv hrest hmem
            · rw [if_neg hui] at h
              by_cases hcn : (fieldCouldBeNone f t && isNone y) = true
              · rw [if_pos hcn] at h
                obtain ⟨rest, hv, hrest⟩ := split _ h
                exact tailCase _ rest hv hrest hmem
              · rw [if_neg hcn] at h
                cases ha : unpack O cx { field := f.name, holder := cls } t y with
                | error e' => rw [ha] at h; cases h
                | ok a =>
                  rw [ha] at h
                  obtain ⟨rest, hv, hrest⟩ := split _ h
                  exact tailCase _ rest hv hrest hmem

/-- the documented exception classes derive from exactly these builtins (so `except ValueError`
    / `except LookupError` in user code behave as documented) -/
theorem exc_bases_pinned : Mashu.Generated.excBases =
    [("MissingField", ["LookupError", "Exception"]), ("InvalidFieldValue", ["ValueError", "Exception"]),
     ("ExtraKeysError", ["ValueError", "Exception"]), ("MissingDiscriminatorError", ["LookupError", "Exception"]),
     ("SuitableVariantNotFoundError", ["ValueError", "Exception"])] := by decide

end Mashu
