/-
  C09 — input keys are resolved by the documented alias rules.

  Over the model of the generated `from_dict` (`findKey`, `extraKeysOf`, `unpackFields`,
  `fromDict` in Mashu.Unpack) and the alias-source precedence `aliasOf`:
  * `alias_precedence`    — field metadata over the (last) Annotated Alias over Config.aliases;
  * `findKey_*`           — a field is read from its alias if it has one, else from its name;
                            with allow_deserialization_not_by_alias the name is a fallback and
                            the alias wins when both are present;
  * `reads_only_its_keys` — the whole field loop depends on the input only through those lookups;
  * `stranger_ignored`    — a key outside the accepted set changes nothing;
  * `extra_keys_exact`    — with forbid_extra_keys the error carries exactly the keys of the
                            input outside the accepted set, before any field is looked at.
-/
import Mashu.Lemmas.Inv
namespace Mashu

theorem alias_precedence_meta (a : String) (ann : List String) (cfg : Option String) :
    aliasOf (some a) ann cfg = some a := rfl

theorem alias_precedence_annotated (a : String) (ann : List String) (cfg : Option String) (h : ann.getLast? = some a) :
    aliasOf none ann cfg = some a := by simp [aliasOf, h]

theorem alias_precedence_config (cfg : Option String) : aliasOf none [] cfg = cfg := by
  simp [aliasOf]

theorem alias_none_iff (md : Option String) (ann : List String) (cfg : Option String) :
    aliasOf md ann cfg = none ↔ md = none ∧ ann = [] ∧ cfg = none := by
  cases md with
  | some a => simp [aliasOf]
  | none =>
    cases h : ann.getLast? with
    | some a =>
      have : ann ≠ [] := by intro he; subst he; simp at h
      simp [aliasOf, h, this]
    | none =>
      have : ann = [] := List.getLast?_eq_none_iff.mp h
      simp [aliasOf, h, this]

/-! ### which key a field is read from -/

theorem findKey_no_alias (cfg : Cfg) (f : FieldDef) (kvs : List (V × V)) (h : f.alias = none) :
    findKey cfg f kvs = lookupKey kvs f.name := by
  simp [findKey, h]

theorem findKey_alias_strict (cfg : Cfg) (f : FieldDef) (kvs : List (V × V)) (a : String)
    (h : f.alias = some a) (hn : cfg.allowNotByAlias = false) :
    findKey cfg f kvs = lookupKey kvs a := by
  simp [findKey, h, hn]

theorem findKey_alias_wins (cfg : Cfg) (f : FieldDef) (kvs : List (V × V)) (a : String) (x : V)
    (h : f.alias = some a) (hx : lookupKey kvs a = some x) :
    findKey cfg f kvs = some x := by
  simp only [findKey, h]
  split <;> simp [hx]

theorem findKey_name_fallback (cfg : Cfg) (f : FieldDef) (kvs : List (V × V)) (a : String)
    (h : f.alias = some a) (hn : cfg.allowNotByAlias = true) (hx : lookupKey kvs a = none) :
    findKey cfg f kvs = lookupKey kvs f.name := by
  simp [findKey, h, hn, hx]

/-- the keys a field may be read from -/
def acceptedKeys (cfg : Cfg) (f : FieldDef) : List String :=
  match f.alias with
  | some a => if cfg.allowNotByAlias then [a, f.name] else [a]
  | none => [f.name]

theorem lookupKey_cons_other (k : V) (v : V) (kvs : List (V × V)) (n : String) (h : (k == V.str n) = false) :
    lookupKey ((k, v) :: kvs) n = lookupKey kvs n := by
  simp [lookupKey, List.find?, h]

/-- a key that is not one of the field's accepted keys does not influence what the field reads -/
theorem stranger_ignored (cfg : Cfg) (f : FieldDef) (kvs : List (V × V)) (k v : V)
    (h : ∀ n ∈ acceptedKeys cfg f, (k == V.str n) = false) :
    findKey cfg f ((k, v) :: kvs) = findKey cfg f kvs := by
  cases ha : f.alias with
  | none =>
    simp only [acceptedKeys, ha] at h
    simp [findKey, ha, lookupKey_cons_other k v kvs f.name (h f.name (by simp))]
  | some a =>
    by_cases hn : cfg.allowNotByAlias = true
    · simp only [acceptedKeys, ha, hn, if_true] at h
      simp [findKey, ha, hn, lookupKey_cons_other k v kvs a (h a (by simp)),
        lookupKey_cons_other k v kvs f.name (h f.name (by simp))]
    · have hn' : cfg.allowNotByAlias = false := by simpa using hn
      simp only [acceptedKeys, ha, hn'] at h
      simp [findKey, ha, hn', lookupKey_cons_other k v kvs a (h a (by simp))]

/-- the field loop sees the input only through `findKey` -/
theorem reads_only_its_keys (O : Oracle) (cx : Cx) (cls : String) (cfg : Cfg) :
    ∀ (fs : List (FieldDef × Ty)) (kvs kvs' : List (V × V)),
      (∀ ft ∈ fs, findKey cfg ft.1 kvs = findKey cfg ft.1 kvs') →
      unpackFields O cx cls cfg fs kvs = unpackFields O cx cls cfg fs kvs'
  | [], _, _, _ => by rw [unpackFields, unpackFields]
  | (f, t) :: fs, kvs, kvs', h => by
      rw [unpackFields, unpackFields]
      rw [reads_only_its_keys O cx cls cfg fs kvs kvs' (fun ft hft => h ft (by simp [hft]))]
      rw [h (f, t) (by simp)]

/-- keys outside the accepted set of every constructor field -/
theorem extra_keys_exact (cfg : Cfg) (initFs : List (FieldDef × Ty)) (kvs : List (V × V)) (k : V) :
    k ∈ extraKeysOf cfg initFs kvs ↔
      k ∈ kvs.map (·.1) ∧ ∀ ft ∈ initFs, ∀ n ∈ acceptedKeys cfg ft.1, (k == V.str n) = false := by
  simp only [extraKeysOf, List.mem_filter]
  constructor
  · rintro ⟨hk, hn⟩
    refine ⟨hk, ?_⟩
    intro ft hft n hnacc
    cases hb : (k == V.str n) with
    | false => rfl
    | true =>
      exfalso
      simp only [Bool.not_eq_true', List.any_eq_false] at hn
      have hmem : n ∈ initFs.map (fun ft => ft.1.alias.getD ft.1.name)
            ++ (if cfg.allowNotByAlias then initFs.map (fun ft => ft.1.name) else []) := by
        cases ha : ft.1.alias with
        | none =>
          simp only [acceptedKeys, ha, List.mem_singleton] at hnacc
          subst hnacc
          apply List.mem_append_left
          exact List.mem_map.mpr ⟨ft, hft, by simp [ha]⟩
        | some a =>
          by_cases hal : cfg.allowNotByAlias = true
          · simp only [acceptedKeys, ha, hal, if_true, List.mem_cons, List.mem_nil_iff, or_false] at hnacc
            rcases hnacc with rfl | rfl
            · apply List.mem_append_left
              exact List.mem_map.mpr ⟨ft, hft, by simp [ha]⟩
            · apply List.mem_append_right
              simp only [hal, if_true]
              exact List.mem_map.mpr ⟨ft, hft, rfl⟩
          · have hal' : cfg.allowNotByAlias = false := by simpa using hal
            simp only [acceptedKeys, ha, hal', Bool.false_eq_true, if_false, List.mem_singleton] at hnacc
            subst hnacc
            apply List.mem_append_left
            exact List.mem_map.mpr ⟨ft, hft, by simp [ha]⟩
      have := hn n hmem
      simp [hb] at this
  · rintro ⟨hk, hall⟩
    refine ⟨hk, ?_⟩
    simp only [Bool.not_eq_true', List.any_eq_false]
    intro n hn
    rcases List.mem_append.mp hn with h | h
    · obtain ⟨ft, hft, rfl⟩ := List.mem_map.mp h
      have := hall ft hft (ft.1.alias.getD ft.1.name) (by
        cases ha : ft.1.alias with
        | none => simp [acceptedKeys, ha]
        | some a => by_cases hal : cfg.allowNotByAlias = true <;> simp [acceptedKeys, ha, hal])
      simpa using this
    · by_cases hal : cfg.allowNotByAlias = true
      · simp only [hal, if_true] at h
        obtain ⟨ft, hft, rfl⟩ := List.mem_map.mp h
        have := hall ft hft ft.1.name (by
          cases ha : ft.1.alias with
          | none => simp [acceptedKeys, ha]
          | some a => simp [acceptedKeys, ha, hal])
        simpa using this
      · simp [hal] at h

/-- with forbid_extra_keys, unexpected keys are reported before any field is read -/
theorem forbid_reports_extra (cls : String) (cfg : Cfg) (fs : List (FieldDef × Ty)) (o : MapO) (kvs : List (V × V))
    (fieldsF : List (V × V) → R (List (String × V)))
    (hne : (fs.filter (fun ft => ft.1.init)).isEmpty = false) (hf : cfg.forbidExtraKeys = true)
    (hx : (extraKeysOf cfg (fs.filter (fun ft => ft.1.init)) kvs).isEmpty = false) :
    fromDict cls cfg fs (.map o kvs) fieldsF
      = .error (.extraKeys (extraKeysOf cfg (fs.filter (fun ft => ft.1.init)) kvs) cls) := by
  simp [fromDict, hne, hf, hx]

/-- non-vacuity -/
example : (match findKey { allowNotByAlias := true } { name := "a", alias := some "A" }
    [(.str "a", .int 1), (.str "A", .int 2)] with | some (.int 2) => true | _ => false) = true := by decide +kernel

end Mashu
