/-
  C06 — the generated JSON Schema accepts everything the serializer produces.

  `pack_valid` (mutual structural induction over the type grammar, with the tuple / named tuple /
  dataclass field loops): for every schema of the supported fragment, every conforming value and
  the default dialect, the serializer returns a document that is VALID against `schemaOf S` —
  the schema the generator builds (definitions inlined), with the Draft 2020-12 meaning of the
  keywords it emits.  `required_exact`: `required` lists exactly the init fields without default.

  Outside the fragment, with decided / replayed witnesses (findings K5, K16, K17): Flag enums,
  non-string mapping keys, one `$defs` entry per bare class name, `serialize="omit"` on a
  required field, `init=False` fields (serialized but absent from the schema).
-/
import Mashu.Schema
import Mashu.Frag
import Mashu.Props.C02
import Mashu.Lemmas.Rt
namespace Mashu.Schema
open Mashu

/-- mapping keys whose serialized form is a JSON string described by their own schema -/
def KeyOK : Ty → Prop
  | .str => True
  | .leaf k => k ≠ .timedelta
  | _ => False

/-- what the theorem assumes of the (uninterpreted) leaf printers: the printed form of a leaf of
    kind k is valid for the schema the generator emits for k (string; number for timedelta;
    'UTC' / 'UTC±hh:mm' for timezone) — sampled by the harness on every run -/
structure WireLaws (O : Oracle) : Prop where
  print_wire : ∀ k c b, O.call (.print k) (.leaf k c) = .ok b → Valid (leafSch k) b
  print_str : ∀ k c b, k ≠ .timedelta → O.call (.print k) (.leaf k c) = .ok b → ∃ s, b = .str s

mutual
/-- the supported fragment: default serialization options, by alias where aliases exist -/
def SOK : Ty → Prop
  | .any | .none | .bool | .int | .float | .str => True
  | .leaf _ => True
  | .enum _ _ => True
  | .lit vals => ∀ cw ∈ vals, cw.2 = cw.1
  | .opt t => SOK t
  | .union _ => False
  | .coll _ t => SOK t
  | .map _ k t => KeyOK k ∧ SOK k ∧ SOK t
  | .chain k t => KeyOK k ∧ SOK k ∧ SOK t
  | .tvar t => SOK t
  | .tfix ts => SOKL ts
  | .tunp _ _ _ => False
  | .nt _ fs _ _ => SOKN fs
  | .td _ _ _ => False
  | .dc _ cfg fs => cfg.omitNone = false ∧ cfg.omitDefault = false ∧ SOKF cfg fs
def SOKL : List Ty → Prop
  | [] => True
  | t :: ts => SOK t ∧ SOKL ts
def SOKN : List (String × Ty) → Prop
  | [] => True
  | (_, t) :: fs => SOK t ∧ SOKN fs
def SOKF (cfg : Cfg) : List (FieldDef × Ty) → Prop
  | [] => True
  | (f, t) :: fs => f.init = true ∧ f.serOmit = false ∧ (f.alias = none ∨ cfg.serializeByAlias = true)
      ∧ (f.default = some .none → t.nullableAnn = true) ∧ SOK t ∧ SOKF cfg fs
end

theorem sokf_init (cfg : Cfg) : ∀ (fs : List (FieldDef × Ty)), SOKF cfg fs → ∀ ft ∈ fs, ft.1.init = true
  | [], _, ft, h => by simp at h
  | (f, t) :: fs, hs, ft, h => by
      simp only [SOKF] at hs
      simp only [List.mem_cons] at h
      rcases h with rfl | h
      · exact hs.1
      · exact sokf_init cfg fs hs.2.2.2.2.2 ft h


theorem validProp_mem {props : List (String × Sch)} {k : String} {s : Sch} {x : V}
    (hm : (k, s) ∈ props) (hv : Valid s x) : ValidProp props k x := by
  induction props with
  | nil => simp at hm
  | cons p ps ih =>
    obtain ⟨n, s'⟩ := p
    simp only [ValidProp]
    simp only [List.mem_cons, Prod.mk.injEq] at hm
    rcases hm with ⟨rfl, rfl⟩ | hm
    · exact Or.inl ⟨rfl, hv⟩
    · exact Or.inr (ih hm)

/-- relations between a declaration list and the serialized pieces -/
def RelL (ntd : Bool) : List Ty → List V → Prop
  | [], [] => True
  | t :: ts, b :: bs => Valid (schemaOf ntd t) b ∧ RelL ntd ts bs
  | _, _ => False
def RelN (ntd : Bool) : List (String × Ty) → List (String × V) → Prop
  | [], [] => True
  | (n, t) :: fs, (m, b) :: bs => n = m ∧ Valid (schemaOf ntd t) b ∧ RelN ntd fs bs
  | _, _ => False
def RelE (ntd : Bool) : List (FieldDef × Ty) → List Entry → Prop
  | [], [] => True
  | (f, t) :: fs, e :: es => e.key = fieldKey f ∧ Valid (schemaOf ntd t) e.val ∧ RelE ntd fs es
  | _, _ => False

theorem relL_validL (ntd : Bool) : ∀ (ts : List Ty) (bs : List V), RelL ntd ts bs → ValidL (schemaOfL ntd ts) bs
  | [], [], _ => by simp [schemaOfL, ValidL]
  | [], _ :: _, h => by simp [RelL] at h
  | _ :: _, [], h => by simp [RelL] at h
  | t :: ts, b :: bs, h => by
      simp only [RelL] at h
      simp only [schemaOfL, ValidL]
      exact ⟨h.1, relL_validL ntd ts bs h.2⟩

theorem relN_validL (ntd : Bool) : ∀ (fs : List (String × Ty)) (bs : List (String × V)), RelN ntd fs bs →
    ValidL ((schemaOfN ntd fs).map (·.2)) (bs.map (·.2))
  | [], [], _ => by simp [schemaOfN, ValidL]
  | [], _ :: _, h => by simp [RelN] at h
  | _ :: _, [], h => by simp [RelN] at h
  | (n, t) :: fs, (m, b) :: bs, h => by
      simp only [RelN] at h
      simp only [schemaOfN, List.map_cons, ValidL]
      exact ⟨h.2.1, relN_validL ntd fs bs h.2.2⟩

theorem relN_props (ntd : Bool) : ∀ (fs : List (String × Ty)) (bs : List (String × V)), RelN ntd fs bs →
    (∀ nb ∈ bs, ValidProp (schemaOfN ntd fs) nb.1 nb.2) ∧ (∀ r ∈ fs.map (·.1), ∃ x, (r, x) ∈ bs)
  | [], [], _ => by simp
  | [], _ :: _, h => by simp [RelN] at h
  | _ :: _, [], h => by simp [RelN] at h
  | (n, t) :: fs, (m, b) :: bs, h => by
      simp only [RelN] at h
      obtain ⟨rfl, hv, hr⟩ := h
      obtain ⟨i1, i2⟩ := relN_props ntd fs bs hr
      refine ⟨?_, ?_⟩
      · intro nb hnb
        simp only [List.mem_cons] at hnb
        simp only [schemaOfN, ValidProp]
        rcases hnb with rfl | hnb
        · exact Or.inl ⟨rfl, hv⟩
        · exact Or.inr (i1 nb hnb)
      · intro r hr'
        simp only [List.map_cons, List.mem_cons] at hr'
        rcases hr' with rfl | hr'
        · exact ⟨b, by simp⟩
        · obtain ⟨x, hx⟩ := i2 r hr'
          exact ⟨x, by simp [hx]⟩

theorem relE_props (ntd : Bool) : ∀ (fs : List (FieldDef × Ty)) (es : List Entry), (∀ ft ∈ fs, ft.1.init = true) → RelE ntd fs es →
    (∀ e ∈ es, ValidProp (schemaOfF ntd fs) e.key e.val) ∧ (∀ r ∈ requiredOf fs, ∃ e ∈ es, e.key = r)
  | [], [], _, _ => by simp [requiredOf]
  | [], _ :: _, _, h => by simp [RelE] at h
  | _ :: _, [], _, h => by simp [RelE] at h
  | (f, t) :: fs, e :: es, hi, h => by
      simp only [RelE] at h
      obtain ⟨hk, hv, hr⟩ := h
      have hfi : f.init = true := hi (f, t) (by simp)
      obtain ⟨i1, i2⟩ := relE_props ntd fs es (fun ft hft => hi ft (by simp [hft])) hr
      refine ⟨?_, ?_⟩
      · intro e' he'
        simp only [List.mem_cons] at he'
        simp only [schemaOfF, hfi, if_true, ValidProp]
        rcases he' with rfl | he'
        · exact Or.inl ⟨hk.symm, hv⟩
        · exact Or.inr (i1 e' he')
      · intro r hr'
        simp only [requiredOf, hfi, Bool.true_and] at hr'
        split at hr'
        · simp only [List.mem_cons] at hr'
          rcases hr' with rfl | hr'
          · exact ⟨e, by simp, hk⟩
          · obtain ⟨e', he', hk'⟩ := i2 r hr'
            exact ⟨e', by simp [he'], hk'⟩
        · obtain ⟨e', he', hk'⟩ := i2 r hr'
          exact ⟨e', by simp [he'], hk'⟩

/-- a value of an identity-packed type of the fragment is valid as it is -/
theorem ident_conf_valid (cx : Cx) (hp : cx.plain) (ntd : Bool) : ∀ (t : Ty) (v : V), Frag t → t.packIdent cx = true → Conf t v →
    Valid (schemaOf ntd t) v
  | .any, v, _, _, _ => by simp [schemaOf, Valid]
  | .none, v, _, _, hc => by simp only [Conf] at hc; subst hc; simp [schemaOf, Valid, HasJT]
  | .bool, v, _, _, hc => by simp only [Conf] at hc; obtain ⟨b, rfl⟩ := hc; simp [schemaOf, Valid, HasJT]
  | .int, v, _, _, hc => by simp only [Conf] at hc; obtain ⟨b, rfl⟩ := hc; simp [schemaOf, Valid, HasJT]
  | .float, v, _, _, hc => by simp only [Conf] at hc; obtain ⟨b, rfl⟩ := hc; simp [schemaOf, Valid, HasJT]
  | .str, v, _, _, hc => by simp only [Conf] at hc; obtain ⟨b, rfl⟩ := hc; simp [schemaOf, Valid, HasJT]
  | .union _, _, hf, _, _ => by simp [Frag] at hf
  | .leaf _, _, _, hi, _ => by simp [Ty.packIdent, hp.1] at hi
  | .enum _ _, _, _, hi, _ => by simp [Ty.packIdent] at hi
  | .lit _, _, _, hi, _ => by simp [Ty.packIdent] at hi
  | .opt t, v, hf, hi, hc => by
      simp only [Conf] at hc
      rcases hc with rfl | hc
      · simp [schemaOf, Valid, ValidAny, HasJT]
      · have ih := ident_conf_valid cx hp ntd t v (by simpa [Frag] using hf) (by simpa [Ty.packIdent] using hi) hc
        simp only [schemaOf, Valid, ValidAny]; exact Or.inl ih
  | .coll o _, _, _, hi, _ => by cases o <;> simp [Ty.packIdent, hp.2.1] at hi
  | .map o _ _, _, _, hi, _ => by cases o <;> simp [Ty.packIdent, hp.2.2] at hi
  | .chain _ _, _, _, hi, _ => by simp [Ty.packIdent] at hi
  | .tvar _, _, _, hi, _ => by simp [Ty.packIdent] at hi
  | .tfix _, _, _, hi, _ => by simp [Ty.packIdent] at hi
  | .tunp _ _ _, _, _, hi, _ => by simp [Ty.packIdent] at hi
  | .nt _ _ _ _, _, _, hi, _ => by simp [Ty.packIdent] at hi
  | .td _ _ _, _, _, hi, _ => by simp [Ty.packIdent] at hi
  | .dc _ _ _, _, _, hi, _ => by simp [Ty.packIdent] at hi

theorem nullable_valid_none (ntd : Bool) (t : Ty) (hs : SOK t) (h : t.nullableAnn = true) : Valid (schemaOf ntd t) .none := by
  cases t with
  | union ts => simp [SOK] at hs
  | lit vals =>
    simp only [SOK] at hs
    simp only [Ty.nullableAnn, List.any_eq_true] at h
    obtain ⟨cw, hm, hn⟩ := h
    have h1 : cw.1 = V.none := isNone_true hn
    have h2 : cw.2 = V.none := by rw [hs cw hm, h1]
    simp only [schemaOf, Valid, List.mem_map]
    exact ⟨cw, hm, h2⟩
  | any => simp [schemaOf, Valid]
  | none => simp [schemaOf, Valid, HasJT]
  | opt t => simp [schemaOf, Valid, ValidAny, HasJT]
  | bool | int | float | str | leaf _ | enum _ _ | coll _ _ | map _ _ _ | chain _ _ | tvar _ | tfix _ | tunp _ _ _ | nt _ _ _ _ | td _ _ _ | dc _ _ _ =>
    simp [Ty.nullableAnn] at h

section
variable (O : Oracle) (hO : PrintLaws O) (hW : WireLaws O)
include hO hW
set_option linter.unusedVariables false

/-- a key type of the fragment serializes to a JSON string that is valid for its own schema -/
theorem key_valid (k : Ty) (cx : Cx) (fx : Fx) (x : V) (hp : cx.plain) (hk : KeyOK k) (hc : Conf k x) :
    ∃ b s, pack O cx fx k x = .ok b ∧ b = .str s ∧ Valid (schemaOf cx.ntAsDict k) b := by
  cases k with
  | str =>
    simp only [Conf] at hc
    obtain ⟨s, rfl⟩ := hc
    exact ⟨_, s, by rw [pack], rfl, by simp [schemaOf, Valid, HasJT]⟩
  | leaf kk =>
    simp only [KeyOK] at hk
    simp only [Conf] at hc
    obtain ⟨c, rfl⟩ := hc
    obtain ⟨b, hb, _⟩ := hO.print_ok kk c
    obtain ⟨s, hs⟩ := hW.print_str kk c b hk hb
    refine ⟨b, s, by rw [pack]; simp [hp.1, Oracle.run, hb], hs, ?_⟩
    simp only [schemaOf]
    exact hW.print_wire kk c b hb
  | _ => simp [KeyOK] at hk

mutual
theorem pack_valid : ∀ (S : Ty) (cx : Cx) (fx : Fx) (v : V), cx.plain → Frag S → SOK S → Conf S v →
    ∃ b, pack O cx fx S v = .ok b ∧ Valid (schemaOf cx.ntAsDict S) b
  | .any, cx, fx, v, hp, _, _, hc => ⟨v, by rw [pack], by simp [schemaOf, Valid]⟩
  | .none, cx, fx, v, hp, _, _, hc => by
      simp only [Conf] at hc; subst hc
      exact ⟨_, by rw [pack], by simp [schemaOf, Valid, HasJT]⟩
  | .bool, cx, fx, v, hp, _, _, hc => by
      simp only [Conf] at hc; obtain ⟨_, rfl⟩ := hc
      exact ⟨_, by rw [pack], by simp [schemaOf, Valid, HasJT]⟩
  | .int, cx, fx, v, hp, _, _, hc => by
      simp only [Conf] at hc; obtain ⟨_, rfl⟩ := hc
      exact ⟨_, by rw [pack], by simp [schemaOf, Valid, HasJT]⟩
  | .float, cx, fx, v, hp, _, _, hc => by
      simp only [Conf] at hc; obtain ⟨_, rfl⟩ := hc
      exact ⟨_, by rw [pack], by simp [schemaOf, Valid, HasJT]⟩
  | .str, cx, fx, v, hp, _, _, hc => by
      simp only [Conf] at hc; obtain ⟨_, rfl⟩ := hc
      exact ⟨_, by rw [pack], by simp [schemaOf, Valid, HasJT]⟩
  | .leaf k, cx, fx, v, hp, _, hs, hc => by
      simp only [Conf] at hc
      obtain ⟨c, rfl⟩ := hc
      simp only [SOK] at hs
      obtain ⟨b, hb, _⟩ := hO.print_ok k c
      exact ⟨b, by rw [pack]; simp [hp.1, Oracle.run, hb], by simp only [schemaOf]; exact hW.print_wire k c b hb⟩
  | .enum cls ms, cx, fx, v, hp, hf, _, hc => by
      simp only [Conf] at hc
      obtain ⟨m, rfl, hm⟩ := hc
      obtain ⟨x, hx⟩ := Option.isSome_iff_exists.mp hm
      refine ⟨x, by rw [pack]; simp [hx], ?_⟩
      simp only [schemaOf, Valid]
      exact List.mem_map.mpr ⟨(m, x), lookup_mem ms m x hx, rfl⟩
  | .lit vals, cx, fx, v, hp, hf, hs, hc => by
      simp only [Conf] at hc
      obtain ⟨cw, hmem, rfl⟩ := hc
      have hsc : LitScalar cw.1 := hf cw hmem
      have hex : ∃ cw', vals.find? (fun c => O.eq cw.1 c.1) = some cw' := by
        rcases hfind : vals.find? (fun c => O.eq cw.1 c.1) with _ | cw'
        · rw [List.find?_eq_none] at hfind
          have := hfind cw hmem
          simp [hO.eq_refl cw.1 hsc] at this
        · exact ⟨cw', hfind⟩
      obtain ⟨cw', hfind⟩ := hex
      have hmem' : cw' ∈ vals := List.mem_of_find?_eq_some hfind
      have hsc' : LitScalar cw'.1 := hf cw' hmem'
      refine ⟨cw.1, ?_, ?_⟩
      · rw [pack]; simp only [hfind]
        cases h1 : cw'.1 <;> simp_all [LitScalar]
      · simp only [schemaOf, Valid]
        simp only [SOK] at hs
        exact List.mem_map.mpr ⟨cw, hmem, hs cw hmem⟩
  | .opt t, cx, fx, v, hp, hf, hs, hc => by
      simp only [Conf] at hc
      rcases hc with rfl | hc'
      · exact ⟨.none, by rw [pack], by simp [schemaOf, Valid, ValidAny, HasJT]⟩
      · obtain ⟨b, hb, hbb⟩ := pack_valid t cx fx v hp (by simpa only [Frag] using hf) (by simpa only [SOK] using hs) hc'
        by_cases hn : v = .none
        · subst hn; exact ⟨.none, by rw [pack], by simp [schemaOf, Valid, ValidAny, HasJT]⟩
        · refine ⟨b, ?_, by simp only [schemaOf, Valid, ValidAny]; exact Or.inl hbb⟩
          rw [pack] <;> first | exact hb | exact hn
  | .union ts, cx, fx, v, hp, hf, _, _ => by simp [Frag] at hf
  | .coll o t, cx, fx, v, hp, hf, hs, hc => by
      simp only [Frag] at hf
      obtain ⟨ho, hft⟩ := hf
      simp only [SOK] at hs
      simp only [Conf] at hc
      obtain ⟨vs, rfl, hall⟩ := hc
      obtain ⟨bs, hbs, hbb⟩ := mapM_ok (pack O cx fx t) (Valid (schemaOf cx.ntAsDict t)) vs
        (fun x hx => pack_valid t cx fx x hp hft hs (hall x hx))
      by_cases hid : (o == .list && t.packIdent cx) = true
      · -- identity elements: the list is copied as it is; its elements are their own serialized form
        have ho' : o = .list := by
          simp only [Bool.and_eq_true, beq_iff_eq] at hid; exact hid.1
        have hti : t.packIdent cx = true := by
          simp only [Bool.and_eq_true] at hid; exact hid.2
        subst ho'
        refine ⟨.coll .list vs, by rw [pack]; simp [hp.2.1, hti, pyCopy], ?_⟩
        simp only [schemaOf, Valid]
        refine ⟨vs, rfl, ?_⟩
        intro x hx
        exact ident_conf_valid cx hp cx.ntAsDict t x hft hti (hall x hx)
      · refine ⟨.coll .list bs, ?_, by simp only [schemaOf, Valid]; exact ⟨bs, rfl, hbb⟩⟩
        rw [pack]
        have hit : pyIterO O (.coll o vs) = .ok vs := by
          rcases ho with rfl | rfl | rfl | rfl <;> simp [pyIterO, pyIter]
        simp only [hid, hit, R.bind_ok, hbs, R.pure_eq]
        simp
  | .map o k t, cx, fx, v, hp, hf, hs, hc => by
      simp only [Frag] at hf
      obtain ⟨hfk, hft, hcnt⟩ := hf
      simp only [SOK] at hs
      obtain ⟨hko, hsk, hst⟩ := hs
      simp only [Conf] at hc
      obtain ⟨kvs, rfl, hall⟩ := hc
      by_cases hid : (o == .dict && k.packIdent cx && t.packIdent cx) = true
      · simp only [Bool.and_eq_true, beq_iff_eq] at hid
        obtain ⟨⟨rfl, hki⟩, hti⟩ := hid
        refine ⟨.map .dict kvs, by rw [pack]; simp [hp.2.2, hki, hti, pyCopy], ?_⟩
        simp only [schemaOf, Valid]
        refine ⟨kvs, rfl, ?_⟩
        intro kv hkv
        have hkc := (hall kv hkv).1
        have hkval := ident_conf_valid cx hp cx.ntAsDict k kv.1 hfk hki hkc
        refine ⟨?_, hkval, ?_⟩
        · cases k <;> simp [KeyOK] at hko
          · simp only [Conf] at hkc; exact hkc
          · simp [Ty.packIdent, hp.1] at hki
        · have : (MapO.dict == MapO.counter) = false := by decide
          simp only [this, Bool.false_eq_true, if_false]
          exact ident_conf_valid cx hp cx.ntAsDict t kv.2 hft hti (hall kv hkv).2
      · obtain ⟨bs, hbs, hbb⟩ := mapM_ok (kvM (pack O cx fx k) (if o == .counter then pure else pack O cx fx t))
            (fun p : V × V => ((∃ s, p.1 = .str s) ∧ Valid (schemaOf cx.ntAsDict k) p.1)
              ∧ Valid (if o == .counter then Sch.typ .integer none else schemaOf cx.ntAsDict t) p.2) kvs
          (fun kv hkv => by
            obtain ⟨b, s, hb, hbs', hbv⟩ := key_valid O hO hW k cx fx kv.1 hp hko (hall kv hkv).1
            apply kvM_ok _ _ (fun a => (∃ s, a = .str s) ∧ Valid (schemaOf cx.ntAsDict k) a) _ kv ⟨b, hb, ⟨s, hbs'⟩, hbv⟩
            by_cases hc' : (o == .counter) = true
            · have : t = .int := hcnt (by simpa using hc')
              subst this
              obtain ⟨i, hi⟩ := (by simpa only [Conf] using (hall kv hkv).2 : ∃ i, kv.2 = .int i)
              exact ⟨kv.2, by simp only [hc', if_true, R.pure_eq], by simp [hc', hi, Valid, HasJT]⟩
            · simp only [hc']
              exact pack_valid t cx fx kv.2 hp hft hst (hall kv hkv).2)
        refine ⟨.map .dict bs, ?_, ?_⟩
        · rw [pack]
          simp only [hid, pyItems, R.bind_ok, hbs, R.pure_eq]
          simp
        · simp only [schemaOf, Valid]
          refine ⟨bs, rfl, ?_⟩
          intro kv hkv
          obtain ⟨⟨h1, h2⟩, h3⟩ := hbb kv hkv
          exact ⟨h1, h2, h3⟩
  | .chain k t, cx, fx, v, hp, hf, hs, hc => by
      simp only [Frag] at hf
      obtain ⟨hfk, hft⟩ := hf
      simp only [SOK] at hs
      obtain ⟨hko, hsk, hst⟩ := hs
      simp only [Conf] at hc
      obtain ⟨ms, rfl, hall⟩ := hc
      obtain ⟨bs, hbs, hbb⟩ := mapM_ok (itemsM (kvM (pack O cx fx k) (pack O cx fx t)))
        (Valid (.mapOf (schemaOf cx.ntAsDict k) (schemaOf cx.ntAsDict t))) ms
        (fun m hm => by
          obtain ⟨kvs, rfl, hkv⟩ := hall m hm
          obtain ⟨r, hr, hrb⟩ := itemsM_ok .dict (kvM (pack O cx fx k) (pack O cx fx t))
            (fun p : V × V => ((∃ s, p.1 = .str s) ∧ Valid (schemaOf cx.ntAsDict k) p.1) ∧ Valid (schemaOf cx.ntAsDict t) p.2) kvs
            (fun kv hkv' => by
              obtain ⟨b, s, hb, hbs', hbv⟩ := key_valid O hO hW k cx fx kv.1 hp hko (hkv kv hkv').1
              exact kvM_ok _ _ (fun a => (∃ s, a = .str s) ∧ Valid (schemaOf cx.ntAsDict k) a) _ kv ⟨b, hb, ⟨s, hbs'⟩, hbv⟩
                (pack_valid t cx fx kv.2 hp hft hst (hkv kv hkv').2))
          refine ⟨.map .dict r, hr, ?_⟩
          simp only [Valid]
          exact ⟨r, rfl, fun kv hkv'' => ⟨(hrb kv hkv'').1.1, (hrb kv hkv'').1.2, (hrb kv hkv'').2⟩⟩)
      refine ⟨.coll .list bs, ?_, by simp only [schemaOf, Valid]; exact ⟨bs, rfl, hbb⟩⟩
      rw [pack]
      simp only [R.bind_ok, hbs, R.pure_eq]
  | .tvar t, cx, fx, v, hp, hf, hs, hc => by
      simp only [Conf] at hc
      obtain ⟨vs, rfl, hall⟩ := hc
      obtain ⟨bs, hbs, hbb⟩ := mapM_ok (pack O cx fx t) (Valid (schemaOf cx.ntAsDict t)) vs
        (fun x hx => pack_valid t cx fx x hp (by simpa only [Frag] using hf) (by simpa only [SOK] using hs) (hall x hx))
      refine ⟨.coll .list bs, ?_, by simp only [schemaOf, Valid]; exact ⟨bs, rfl, hbb⟩⟩
      rw [pack]
      simp only [pyIterO, pyIter, R.bind_ok, hbs, R.pure_eq]
  | .tfix ts, cx, fx, v, hp, hf, hs, hc => by
      simp only [Conf] at hc
      obtain ⟨vs, rfl, hall⟩ := hc
      obtain ⟨bs, hbs, hbb⟩ := packIdx_valid ts cx fx [] vs hp (by simpa only [Frag] using hf) (by simpa only [SOK] using hs) hall
      refine ⟨.coll .list bs, ?_, by simp only [schemaOf, Valid]; exact ⟨bs, rfl, relL_validL _ ts bs hbb⟩⟩
      rw [pack]
      simp at hbs
      simp [hbs, bind, Except.bind, pure, Except.pure]
  | .tunp _ _ _, cx, fx, v, hp, hf, _, _ => by simp [Frag] at hf
  | .nt cls fs defs asD, cx, fx, v, hp, hf, hs, hc => by
      simp only [Conf] at hc
      obtain ⟨vs, rfl, hall⟩ := hc
      obtain ⟨bs, hbs, hbb⟩ := packNT_valid cls fs cx fx [] vs hp (by simpa only [Frag] using hf) (by simpa only [SOK] using hs) hall
      simp at hbs
      by_cases hd : (asD.getD cx.ntAsDict) = true
      · refine ⟨.map .dict (bs.map (fun nv => (V.str nv.1, nv.2))), ?_, ?_⟩
        · rw [pack]; simp [hbs, hd, bind, Except.bind, pure, Except.pure]
        · simp only [schemaOf, hd, if_true, Valid]
          obtain ⟨i1, i2⟩ := relN_props cx.ntAsDict fs bs hbb
          refine ⟨_, rfl, ?_, ?_⟩
          · intro r hr
            obtain ⟨x, hx⟩ := i2 r hr
            exact ⟨x, List.mem_map.mpr ⟨(r, x), hx, rfl⟩⟩
          · intro kv hkv
            obtain ⟨nv, hnv, rfl⟩ := List.mem_map.mp hkv
            exact ⟨nv.1, rfl, i1 nv hnv⟩
      · refine ⟨.coll .list (bs.map (·.2)), ?_, ?_⟩
        · rw [pack]; simp [hbs, hd, bind, Except.bind, pure, Except.pure]
        · simp only [schemaOf, hd, Bool.false_eq_true, if_false, Valid]
          exact ⟨_, rfl, relN_validL cx.ntAsDict fs bs hbb⟩
  | .td _ _ _, cx, fx, v, hp, hf, _, _ => by simp [Frag] at hf
  | .dc cls cfg fs, cx, fx, v, hp, hf, hs, hc => by
      simp only [Frag] at hf
      obtain ⟨hff, hnd⟩ := hf
      simp only [SOK] at hs
      obtain ⟨hon, hod, hsf⟩ := hs
      simp only [Conf] at hc
      obtain ⟨ivs, rfl, hall⟩ := hc
      have hl := confF_lookup fs ivs hall hnd
      obtain ⟨es, hes, heb⟩ := packFields_valid cls cfg ivs fs { cx with ntAsDict := cfg.ntAsDict } hp hff hon hod hsf hl
      have hinit : ∀ ft ∈ fs, ft.1.init = true := sokf_init cfg fs hsf
      obtain ⟨i1, i2⟩ := relE_props cfg.ntAsDict fs es hinit heb
      refine ⟨.map .dict ((if cfg.sortKeys then sortEntries es else es).map (fun e => (V.str e.key, e.val))), ?_, ?_⟩
      · rw [pack]; simp [hes, bind, Except.bind, pure, Except.pure]
      · simp only [schemaOf, Valid]
        have hmem : ∀ e, e ∈ (if cfg.sortKeys then sortEntries es else es) ↔ e ∈ es := by
          intro e; split
          · exact mem_sortEntries e es
          · exact Iff.rfl
        refine ⟨_, rfl, ?_, ?_⟩
        · intro r hr
          obtain ⟨e, he, hk⟩ := i2 r hr
          exact ⟨e.val, List.mem_map.mpr ⟨e, (hmem e).mpr he, by rw [hk]⟩⟩
        · intro kv hkv
          obtain ⟨e, he, rfl⟩ := List.mem_map.mp hkv
          exact ⟨e.key, rfl, i1 e ((hmem e).mp he)⟩

theorem packIdx_valid : ∀ (ts : List Ty) (cx : Cx) (fx : Fx) (pre vs : List V), cx.plain → FragL ts → SOKL ts → ConfL ts vs →
    ∃ bs, packIdx O cx fx ts (.coll .tuple (pre ++ vs)) (pre.length : Int) = .ok bs ∧ RelL cx.ntAsDict ts bs
  | [], cx, fx, pre, vs, _, _, _, hc => by
      cases vs with
      | nil => exact ⟨[], by rw [packIdx], by simp [RelL]⟩
      | cons _ _ => simp [ConfL] at hc
  | t :: ts, cx, fx, pre, vs, hp, hf, hs, hc => by
      cases vs with
      | nil => simp [ConfL] at hc
      | cons x xs =>
        simp only [ConfL] at hc
        simp only [FragL] at hf
        simp only [SOKL] at hs
        obtain ⟨b, hb, hbb⟩ := pack_valid t cx fx x hp hf.1 hs.1 hc.1
        obtain ⟨bs, hbs, hbsb⟩ := packIdx_valid ts cx fx (pre ++ [x]) xs hp hf.2 hs.2 hc.2
        refine ⟨b :: bs, ?_, by simp only [RelL]; exact ⟨hbb, hbsb⟩⟩
        rw [packIdx]
        have hidx : pyIndex (.coll .tuple (pre ++ x :: xs)) (pre.length : Int) = .ok x :=
          pyIndex_tuple _ _ _ (by simp)
        have hcast : ((pre ++ [x]).length : Int) = (pre.length : Int) + 1 := by simp
        rw [hcast] at hbs
        simp only [List.append_assoc, List.singleton_append] at hbs
        by_cases hcp : t.constPack = true
        · simp only [hcp, if_true, R.pure_eq, R.bind_ok, pack_const O cx fx t hcp V.none x, hb, hbs]
        · simp only [hcp, Bool.false_eq_true, if_false, pyIndexO, hidx, R.bind_ok, hb, hbs, R.pure_eq]

theorem packNT_valid : ∀ (cls : String) (fs : List (String × Ty)) (cx : Cx) (fx : Fx) (pre vs : List V),
    cx.plain → FragN fs → SOKN fs → ConfN fs vs →
    ∃ bs, packNT O cx fx fs (.ntuple cls (pre ++ vs)) (pre.length : Int) = .ok bs ∧ RelN cx.ntAsDict fs bs
  | _, [], cx, fx, pre, vs, _, _, _, hc => by
      cases vs with
      | nil => exact ⟨[], by rw [packNT], by simp [RelN]⟩
      | cons _ _ => simp [ConfN] at hc
  | cls, (n, t) :: fs, cx, fx, pre, vs, hp, hf, hs, hc => by
      cases vs with
      | nil => simp [ConfN] at hc
      | cons x xs =>
        simp only [ConfN] at hc
        simp only [FragN] at hf
        simp only [SOKN] at hs
        obtain ⟨b, hb, hbb⟩ := pack_valid t cx fx x hp hf.1 hs.1 hc.1
        obtain ⟨bs, hbs, hbsb⟩ := packNT_valid cls fs cx fx (pre ++ [x]) xs hp hf.2 hs.2 hc.2
        refine ⟨(n, b) :: bs, ?_, by simp only [RelN]; exact ⟨trivial, hbb, hbsb⟩⟩
        rw [packNT]
        have hidx : pyIndex (.ntuple cls (pre ++ x :: xs)) (pre.length : Int) = .ok x :=
          pyIndex_ntuple _ _ _ _ (by simp)
        have hcast : ((pre ++ [x]).length : Int) = (pre.length : Int) + 1 := by simp
        rw [hcast] at hbs
        simp only [List.append_assoc, List.singleton_append] at hbs
        by_cases hcp : t.constPack = true
        · simp only [hcp, if_true, R.pure_eq, R.bind_ok, pack_const O cx fx t hcp V.none x, hb, hbs]
        · simp only [hcp, Bool.false_eq_true, if_false, pyIndexO, hidx, R.bind_ok, hb, hbs, R.pure_eq]

theorem packFields_valid : ∀ (cls : String) (cfg : Cfg) (ivs : List (String × V)) (fs : List (FieldDef × Ty)) (cx : Cx),
    cx.plain → FragF fs → cfg.omitNone = false → cfg.omitDefault = false → SOKF cfg fs →
    (∀ ft ∈ fs, ∃ v, ivs.lookup ft.1.name = some v ∧ (Conf ft.2 v ∨ (v = .none ∧ ft.1.default = some .none))) →
    ∃ es, packFields O cx cls cfg fs ivs = .ok es ∧ RelE cx.ntAsDict fs es
  | _, _, _, [], cx, _, _, _, _, _, _ => ⟨[], by rw [packFields], by simp [RelE]⟩
  | cls, cfg, ivs, (f, t) :: fs, cx, hp, hf, hon, hod, hs, hl => by
      simp only [FragF] at hf
      simp only [SOKF] at hs
      obtain ⟨hinit, hom, hal, hnul, hst, hsr⟩ := hs
      obtain ⟨es, hes, heb⟩ := packFields_valid cls cfg ivs fs cx hp hf.2 hon hod hsr (fun ft hft => hl ft (by simp [hft]))
      obtain ⟨x, hx, hcx⟩ := hl (f, t) (by simp)
      have hattr : attr ivs f.name = .ok x := by simp [attr, hx]
      have hkey : (if cfg.serializeByAlias = true then f.alias.getD f.name else f.name) = fieldKey f := by
        rcases hal with h | h
        · simp [fieldKey, h]
        · simp [fieldKey, h]
      by_cases hnn : (fieldCouldBeNone f t && isNone x) = true
      · -- the None branch: the annotation is nullable, so `null` is valid
        have hxn : x = .none := by
          simp only [Bool.and_eq_true] at hnn
          exact isNone_true hnn.2
        have htn : t.nullableAnn = true := by
          simp only [Bool.and_eq_true, fieldCouldBeNone, Bool.or_eq_true] at hnn
          rcases hnn.1 with h | h
          · exact h
          · apply hnul
            simp only [FieldDef.defaultIsNone] at h
            split at h
            · rename_i heq; exact heq
            · simp at h
        rw [packFields]
        simp only [hom, Bool.false_eq_true, if_false, hattr, R.bind_ok, hnn, hes, R.pure_eq, if_true, hon, hod, Bool.false_and, Bool.or_self]
        refine ⟨_, rfl, ?_⟩
        simp only [RelE]
        exact ⟨hkey, nullable_valid_none cx.ntAsDict t hst htn, heb⟩
      · have hconf : Conf t x := by
          rcases hcx with h | ⟨rfl, hd⟩
          · exact h
          · exfalso; apply hnn
            have hd' : f.default = some .none := hd
            simp [fieldCouldBeNone, FieldDef.defaultIsNone, hd', isNone]
        obtain ⟨a, ha, hab⟩ := pack_valid t cx { field := f.name, holder := cls } x hp hf.1 hst hconf
        rw [packFields]
        simp only [hom, Bool.false_eq_true, if_false, hattr, R.bind_ok, hnn, ha, hes, R.pure_eq, hod, Bool.false_and]
        refine ⟨_, rfl, ?_⟩
        simp only [RelE]
        exact ⟨hkey, hab, heb⟩
end

end

/-- `required` lists exactly the constructor fields without a default (by their schema key) -/
theorem required_exact (fs : List (FieldDef × Ty)) (r : String) :
    r ∈ requiredOf fs ↔ ∃ ft ∈ fs, ft.1.init = true ∧ ft.1.default = none ∧ fieldKey ft.1 = r := by
  induction fs with
  | nil => simp [requiredOf]
  | cons p fs ih =>
    obtain ⟨f, t⟩ := p
    simp only [requiredOf]
    by_cases h : (f.init && f.default.isNone) = true
    · simp only [h, if_true, List.mem_cons, ih]
      simp only [Bool.and_eq_true, Option.isNone_iff_eq_none] at h
      constructor
      · rintro (rfl | ⟨ft, hft, h1, h2, h3⟩)
        · exact ⟨(f, t), by simp, h.1, h.2, rfl⟩
        · exact ⟨ft, by simp [hft], h1, h2, h3⟩
      · rintro ⟨ft, hft, h1, h2, h3⟩
        rcases hft with rfl | hft
        · exact Or.inl h3.symm
        · exact Or.inr ⟨ft, hft, h1, h2, h3⟩
    · simp only [h, Bool.false_eq_true, if_false, ih]
      constructor
      · rintro ⟨ft, hft, h1, h2, h3⟩
        exact ⟨ft, by simp [hft], h1, h2, h3⟩
      · rintro ⟨ft, hft, h1, h2, h3⟩
        simp only [List.mem_cons] at hft
        rcases hft with rfl | hft
        · exfalso; apply h
          simp only at h1 h2
          simp [h1, h2]
        · exact ⟨ft, hft, h1, h2, h3⟩

/-- the statement is false outside the fragment: an integer-keyed mapping is described with
    integer property names, which no JSON object key (a string) satisfies (finding K5) -/
theorem int_keys_never_valid (k v : V) (s : String) :
    ¬ Valid (schemaOf false (.map .dict .int .str)) (.map .dict [(.str s, v)]) := by
  simp [schemaOf, Valid, HasJT]

end Mashu.Schema
