/-
  C10 — the most specific customization wins.

  `resolve_is_lexmin`: with the type-key order and the source order *extracted from the source on
  this run*, the implementation's nested lookup equals the flat precedence list of the statement:
  field serialize/deserialize option, field serialization_strategy, then for each type key
  (Annotated alias, exact type, generic origin) the dialect passed to the call, Config.dialect,
  Config.serialization_strategy, the format / default dialect.  The same function serves both
  directions (`Dir` is a parameter) and both entry points (a codec simply has no call dialect).
-/
import Mashu.Resolve
import Mashu.Props.C10_Subst
import Mashu.Generated
namespace Mashu.Resolve

theorem key_order_pinned :
    Mashu.Generated.typeKeyOrderPack = ["annotated_type", "type", "origin_type"]
    ∧ Mashu.Generated.typeKeyOrderUnpack = ["annotated_type", "type", "origin_type"] := by decide

theorem source_order_pinned :
    Mashu.Generated.strategySourceOrder = ["fieldStrategy", "callDialect", "configDialect", "config", "defaultDialect"] := by
  decide

theorem findSome_flatMap {α β} (f : α → List (Option β)) : ∀ (xs : List α),
    (xs.flatMap f).findSome? id = xs.findSome? (fun k => (f k).findSome? id)
  | [] => rfl
  | x :: xs => by
      simp only [List.flatMap_cons, List.findSome?_append, List.findSome?_cons]
      rw [findSome_flatMap f xs]
      cases (f x).findSome? id <;> rfl

theorem findSome_map {α β} (g : α → Option β) : ∀ (xs : List α), (xs.map g).findSome? id = xs.findSome? g
  | [] => rfl
  | x :: xs => by
      simp only [List.map_cons, List.findSome?_cons, id]
      rw [findSome_map g xs]

/-- the statement's precedence, for the extracted tables -/
theorem resolve_is_lexmin (d : Dir) (L : Levels) :
    resolveImpl Mashu.Generated.typeKeyOrderPack Mashu.Generated.strategySourceOrder d L = resolveSpec d L := by
  rw [key_order_pinned.1, source_order_pinned]
  simp only [resolveImpl, resolveSpec, specList]
  cases h0 : L.fieldOpt d with
  | some m => simp [List.findSome?]
  | none =>
    cases h1 : L.fieldStrategy.bind (·.get d) with
    | some m => simp [List.findSome?, h1]
    | none =>
      simp only [List.cons_append, List.nil_append, List.findSome?_cons, id]
      rw [findSome_flatMap]
      simp only [findSome_map]
      -- the field's own strategy, re-yielded for every key, has nothing to say in this direction
      simp [List.findSome?, h1]

/-- serialization and deserialization use the same order (pack.py and unpack.py agree) -/
theorem directions_agree (d : Dir) (L : Levels) :
    resolveImpl Mashu.Generated.typeKeyOrderUnpack Mashu.Generated.strategySourceOrder d L
      = resolveImpl Mashu.Generated.typeKeyOrderPack Mashu.Generated.strategySourceOrder d L := by
  rw [key_order_pinned.1, key_order_pinned.2]

/-- the field option beats everything -/
theorem field_option_wins (d : Dir) (L : Levels) (m : M) (h : L.fieldOpt d = some m) : resolveSpec d L = some m := by
  simp [resolveSpec, specList, List.findSome?, h]

/-- a registration for a more specific key beats any registration for a less specific one:
    with nothing at field level, something registered for the Annotated alias at the LOWEST level
    still beats something registered for the exact type at the HIGHEST level -/
theorem specific_key_wins (d : Dir) (L : Levels) (m : M)
    (h0 : L.fieldOpt d = none) (h1 : L.fieldStrategy.bind (·.get d) = none)
    (ha1 : (L.keyed "annotated_type" "callDialect").bind (·.get d) = none)
    (ha2 : (L.keyed "annotated_type" "configDialect").bind (·.get d) = none)
    (ha3 : (L.keyed "annotated_type" "config").bind (·.get d) = none)
    (ha4 : (L.keyed "annotated_type" "defaultDialect").bind (·.get d) = some m) :
    resolveSpec d L = some m := by
  simp [resolveSpec, specList, List.findSome?, h0, h1, ha1, ha2, ha3, ha4]

/-- non-vacuity: a field strategy that only defines deserialization does not shadow a dialect
    registration for serialization -/
def exKeyed (k s : String) : Option Reg :=
  if k == "type" && s == "config" then some { ser := some (M.fn "C"), de := none } else none

example : resolveSpec .ser { fieldStrategy := some { ser := none, de := some (M.fn "F") }, keyed := exKeyed }
    = some (M.fn "C") := by decide

end Mashu.Resolve
