/-
  C04 — format codecs are lossless and equal the format encoding of the basic form.

  mashumaro's part of a format codec is (a) the format dialect: which leaf kinds are left to the
  format library (`pass_through`) and which collections need no copy, and (b) the wiring
  post-encoder ∘ serializer / deserializer ∘ pre-decoder.  The libraries are parameters.

  * `pack_natives` / `format_equals_basic` (mutual structural induction over the fragment, every
    conforming value, EVERY set of pass-through leaf kinds and no-copy settings): the serializer
    under a format dialect returns the plain basic form except that pass-through leaves are still
    objects — rendering them (`printN`, what the library does with its native types) gives exactly
    the basic-form serialization.
  * `format_roundtrip`: hence decoding the document the library produces gives back the value:
    decode_F(encode_F(v)) = v, by `format_equals_basic` and C01's `roundtrip`.
  * `format_names_distinct`: the format dialect table extracted from the source names pairwise
    distinct dialects (a format never picks up another format's natives).
-/
import Mashu.Frag
import Mashu.Lossless
import Mashu.Props.C01
import Mashu.Props.C02
import Mashu.Generated
import Mashu.Props.C04_PackF
import Mashu.Lemmas.Inv
namespace Mashu

/-- pointwise relation between two lists -/
inductive Rel2 {α β} (P : α → β → Prop) : List α → List β → Prop
  | nil : Rel2 P [] []
  | cons {a b as bs} : P a b → Rel2 P as bs → Rel2 P (a :: as) (b :: bs)

/-- the same context under the default dialect -/
def plainOf (cx : Cx) : Cx := { cx with passLeaves := [], noCopyList := false, noCopyDict := false }

theorem plainOf_plain (cx : Cx) : (plainOf cx).plain := ⟨rfl, rfl, rfl⟩

mutual
/-- what the format library does with the serializer's output: native leaves are rendered by their
    documented printer, everything else is kept -/
def printN (O : Oracle) (pl : List Leaf) : V → Option V
  | .none => some .none
  | .bool b => some (.bool b)
  | .int i => some (.int i)
  | .float t => some (.float t)
  | .str s => some (.str s)
  | .leaf k c =>
      if pl.contains k then
        match O.call (.print k) (.leaf k c) with
        | .ok b => some b
        | .error _ => none
      else none
  | .coll .list vs => (printNL O pl vs).map (V.coll .list)
  | .map .dict kvs => (printNKV O pl kvs).map (V.map .dict)
  | _ => none
def printNL (O : Oracle) (pl : List Leaf) : List V → Option (List V)
  | [] => some []
  | v :: vs =>
      match printN O pl v, printNL O pl vs with
      | some a, some r => some (a :: r)
      | _, _ => none
def printNKV (O : Oracle) (pl : List Leaf) : List (V × V) → Option (List (V × V))
  | [] => some []
  | (k, v) :: kvs =>
      match printN O pl k, printN O pl v, printNKV O pl kvs with
      | some a, some b, some r => some ((a, b) :: r)
      | _, _, _ => none
end

mutual
theorem printN_basic (O : Oracle) (pl : List Leaf) : ∀ v : V, Basic v → printN O pl v = some v
  | .none, _ => by simp [printN]
  | .bool _, _ => by simp [printN]
  | .int _, _ => by simp [printN]
  | .float _, _ => by simp [printN]
  | .str _, _ => by simp [printN]
  | .leaf _ _, h => by simp [Basic] at h
  | .enum _ _, h => by simp [Basic] at h
  | .coll o vs, h => by
      cases o <;> simp only [Basic] at h
      simp only [printN, printNL_basic O pl vs h, Option.map_some]
  | .map o kvs, h => by
      cases o <;> simp only [Basic] at h
      simp only [printN, printNKV_basic O pl kvs h, Option.map_some]
  | .ntuple _ _, h => by simp [Basic] at h
  | .inst _ _, h => by simp [Basic] at h
  | .tagged _ _, h => by simp [Basic] at h
theorem printNL_basic (O : Oracle) (pl : List Leaf) : ∀ vs : List V, BasicL vs → printNL O pl vs = some vs
  | [], _ => by simp [printNL]
  | v :: vs, h => by
      simp only [BasicL] at h
      simp only [printNL, printN_basic O pl v h.1, printNL_basic O pl vs h.2]
theorem printNKV_basic (O : Oracle) (pl : List Leaf) : ∀ kvs : List (V × V), BasicKV kvs → printNKV O pl kvs = some kvs
  | [], _ => by simp [printNKV]
  | (k, v) :: kvs, h => by
      simp only [BasicKV] at h
      simp only [printNKV, printN_basic O pl k h.1, printN_basic O pl v h.2.1, printNKV_basic O pl kvs h.2.2]
end

theorem printNL_of {O : Oracle} {pl : List Leaf} : ∀ {as bs : List V},
    Rel2 (fun a b => printN O pl a = some b) as bs → printNL O pl as = some bs := by
  intro as bs h
  induction h with
  | nil => simp [printNL]
  | cons h1 _ ih => simp only [printNL, h1, ih]

theorem printNKV_of {O : Oracle} {pl : List Leaf} : ∀ {as bs : List (V × V)},
    Rel2 (fun a b => printN O pl a.1 = some b.1 ∧ printN O pl a.2 = some b.2) as bs → printNKV O pl as = some bs := by
  intro as bs h
  induction h with
  | nil => simp [printNKV]
  | @cons a b _ _ h1 _ ih =>
    obtain ⟨a1, a2⟩ := a
    obtain ⟨b1, b2⟩ := b
    simp only at h1
    simp only [printNKV, h1.1, h1.2, ih]

/-- two traversals of one list that both succeed yield pointwise related results -/
theorem mapM_rel {α β} (f g : α → R β) (P : β → β → Prop) : ∀ (xs : List α) (as bs : List β),
    xs.mapM f = .ok as → xs.mapM g = .ok bs → (∀ x ∈ xs, ∀ a b, f x = .ok a → g x = .ok b → P a b) → Rel2 P as bs := by
  intro xs
  induction xs with
  | nil =>
    intro as bs h1 h2 _
    simp [List.mapM_nil, pure, Except.pure] at h1 h2
    subst h1; subst h2; exact .nil
  | cons x xs ih =>
    intro as bs h1 h2 hp
    rw [List.mapM_cons] at h1 h2
    obtain ⟨a, ha, h1⟩ := bind_ok_inv h1
    obtain ⟨ra, hra, h1⟩ := bind_ok_inv h1
    obtain ⟨b, hb, h2⟩ := bind_ok_inv h2
    obtain ⟨rb, hrb, h2⟩ := bind_ok_inv h2
    simp [pure, Except.pure] at h1 h2
    subst h1; subst h2
    exact .cons (hp x (by simp) a b ha hb) (ih ra rb hra hrb (fun y hy => hp y (by simp [hy])))

theorem mapM_rel1 {α β} (g : α → R β) (P : α → β → Prop) : ∀ (xs : List α) (bs : List β),
    xs.mapM g = .ok bs → (∀ x ∈ xs, ∀ b, g x = .ok b → P x b) → Rel2 P xs bs := by
  intro xs
  induction xs with
  | nil =>
    intro bs h _
    simp [List.mapM_nil, pure, Except.pure] at h
    subst h; exact .nil
  | cons x xs ih =>
    intro bs h hp
    rw [List.mapM_cons] at h
    obtain ⟨b, hb, h⟩ := bind_ok_inv h
    obtain ⟨rb, hrb, h⟩ := bind_ok_inv h
    simp [pure, Except.pure] at h
    subst h
    exact .cons (hp x (by simp) b hb) (ih rb hrb (fun y hy => hp y (by simp [hy])))

theorem kvM_inv {fk fv : V → R V} {kv r : V × V} (h : kvM fk fv kv = .ok r) : fk kv.1 = .ok r.1 ∧ fv kv.2 = .ok r.2 := by
  unfold kvM at h
  obtain ⟨a, ha, h⟩ := bind_ok_inv h
  obtain ⟨b, hb, h⟩ := bind_ok_inv h
  simp [pure, Except.pure] at h
  subst h
  exact ⟨ha, hb⟩

/-- entries related: same field, same key, value rendered -/
def RE (O : Oracle) (pl : List Leaf) (e f : Entry) : Prop := e.name = f.name ∧ e.key = f.key ∧ printN O pl e.val = some f.val

theorem insertEntry_rel {O : Oracle} {pl : List Leaf} {e f : Entry} (h : RE O pl e f) : ∀ {es fs : List Entry},
    Rel2 (RE O pl) es fs → Rel2 (RE O pl) (insertEntry e es) (insertEntry f fs) := by
  intro es fs hr
  induction hr with
  | nil => exact .cons h .nil
  | @cons a b as bs hab _ ih =>
    simp only [insertEntry]
    rw [← h.1, ← hab.1]
    split
    · exact .cons h (.cons hab ‹_›)
    · exact .cons hab ih

theorem sortEntries_rel {O : Oracle} {pl : List Leaf} : ∀ {es fs : List Entry},
    Rel2 (RE O pl) es fs → Rel2 (RE O pl) (sortEntries es) (sortEntries fs) := by
  intro es fs hr
  induction hr with
  | nil => exact .nil
  | cons hab _ ih => simp only [sortEntries]; exact insertEntry_rel hab ih

theorem rel2_map_kv {O : Oracle} {pl : List Leaf} : ∀ {es fs : List Entry}, Rel2 (RE O pl) es fs →
    printNKV O pl (es.map (fun e => (V.str e.key, e.val))) = some (fs.map (fun e => (V.str e.key, e.val))) := by
  intro es fs hr
  induction hr with
  | nil => simp [printNKV]
  | cons hab _ ih =>
    simp only [List.map_cons, printNKV, printN, hab.2.2, ih, hab.2.1]

theorem rel2_nt_kv {O : Oracle} {pl : List Leaf} : ∀ {as bs : List (String × V)},
    Rel2 (fun (a b : String × V) => a.1 = b.1 ∧ printN O pl a.2 = some b.2) as bs →
    printNKV O pl (as.map (fun nv => (V.str nv.1, nv.2))) = some (bs.map (fun nv => (V.str nv.1, nv.2))) := by
  intro as bs hr
  induction hr with
  | nil => simp [printNKV]
  | @cons a b _ _ hab _ ih =>
    obtain ⟨a1, a2⟩ := a
    obtain ⟨b1, b2⟩ := b
    obtain ⟨h1', h2'⟩ := hab
    simp only at h1' h2'
    subst h1'
    simp only [List.map_cons, printNKV, printN, h2', ih]

theorem rel2_nt_l {O : Oracle} {pl : List Leaf} : ∀ {as bs : List (String × V)},
    Rel2 (fun (a b : String × V) => a.1 = b.1 ∧ printN O pl a.2 = some b.2) as bs →
    printNL O pl (as.map (·.2)) = some (bs.map (·.2)) := by
  intro as bs hr
  induction hr with
  | nil => simp [printNL]
  | @cons a b _ _ hab _ ih =>
    obtain ⟨a1, a2⟩ := a
    obtain ⟨b1, b2⟩ := b
    obtain ⟨h1', h2'⟩ := hab
    simp only at h1' h2'
    simp only [List.map_cons, printNL, h2', ih]

section
variable (O : Oracle) (hO : PrintLaws O)
include hO
set_option linter.unusedVariables false

/-- a value packed by identity under the dialect: rendered, it is its plain serialization -/
theorem ident_natives (cx : Cx) (fx : Fx) : ∀ (t : Ty) (x b : V), Frag t → t.packIdent cx = true → Conf t x →
    pack O (plainOf cx) fx t x = .ok b → printN O cx.passLeaves x = some b
  | .any, x, b, _, _, hc, hp => by
      rw [pack] at hp; cases hp
      exact printN_basic O _ x (by simpa only [Conf] using hc)
  | .none, x, b, _, _, hc, hp => by
      rw [pack] at hp; cases hp; simp only [Conf] at hc; subst hc; simp [printN]
  | .bool, x, b, _, _, hc, hp => by
      rw [pack] at hp; cases hp; simp only [Conf] at hc; obtain ⟨_, rfl⟩ := hc; simp [printN]
  | .int, x, b, _, _, hc, hp => by
      rw [pack] at hp; cases hp; simp only [Conf] at hc; obtain ⟨_, rfl⟩ := hc; simp [printN]
  | .float, x, b, _, _, hc, hp => by
      rw [pack] at hp; cases hp; simp only [Conf] at hc; obtain ⟨_, rfl⟩ := hc; simp [printN]
  | .str, x, b, _, _, hc, hp => by
      rw [pack] at hp; cases hp; simp only [Conf] at hc; obtain ⟨_, rfl⟩ := hc; simp [printN]
  | .leaf k, x, b, _, hi, hc, hp => by
      simp only [Conf] at hc
      obtain ⟨c, rfl⟩ := hc
      simp only [Ty.packIdent] at hi
      rw [pack] at hp
      have hpl : (plainOf cx).passLeaves = [] := rfl
      simp only [hpl, List.contains_nil, Bool.false_eq_true, if_false, Oracle.run] at hp
      simp only [printN, hi, if_true]
      cases hcall : O.call (.print k) (.leaf k c) with
      | error e => simp [hcall] at hp
      | ok r => simp only [hcall, Except.ok.injEq] at hp; rw [hp]
  | .union _, _, _, hf, _, _, _ => by simp [Frag] at hf
  | .enum _ _, _, _, _, hi, _, _ => by simp [Ty.packIdent] at hi
  | .lit _, _, _, _, hi, _, _ => by simp [Ty.packIdent] at hi
  | .opt t, x, b, hf, hi, hc, hp => by
      simp only [Conf] at hc
      by_cases hn : x = .none
      · subst hn; rw [pack] at hp; cases hp; simp [printN]
      · rcases hc with rfl | hc
        · exact absurd rfl hn
        · have hp' : pack O (plainOf cx) fx t x = .ok b := by
            rw [pack] at hp <;> first | exact hp | exact hn
          exact ident_natives cx fx t x b (by simpa [Frag] using hf) (by simpa [Ty.packIdent] using hi) hc hp'
  | .chain _ _, _, _, _, hi, _, _ => by simp [Ty.packIdent] at hi
  | .tvar _, _, _, _, hi, _, _ => by simp [Ty.packIdent] at hi
  | .tfix _, _, _, _, hi, _, _ => by simp [Ty.packIdent] at hi
  | .tunp _ _ _, _, _, _, hi, _, _ => by simp [Ty.packIdent] at hi
  | .nt _ _ _ _, _, _, _, hi, _, _ => by simp [Ty.packIdent] at hi
  | .td _ _ _, _, _, _, hi, _, _ => by simp [Ty.packIdent] at hi
  | .dc _ _ _, _, _, _, hi, _, _ => by simp [Ty.packIdent] at hi
  | .coll o t, x, b, hf, hi, hc, hp => by
      simp only [Frag] at hf
      have ho : o = .list := by cases o <;> simp [Ty.packIdent] at hi <;> rfl
      subst ho
      simp only [Ty.packIdent, Bool.and_eq_true] at hi
      simp only [Conf] at hc
      obtain ⟨xs, rfl, hall⟩ := hc
      rw [pack] at hp
      by_cases h0 : (CollO.list == CollO.list && t.packIdent (plainOf cx)) = true
      · have hnl : (plainOf cx).noCopyList = false := rfl
        simp only [h0, if_true, hnl, Bool.false_eq_true, if_false, pyCopy, Except.ok.injEq] at hp
        subst hp
        have hti : t.packIdent (plainOf cx) = true := by simpa using h0
        refine printN_basic O _ _ ?_
        simp only [Basic]
        exact basicL_of (fun y hy => ident_conf_basic (plainOf cx) (plainOf_plain cx) t y hf.2 hti (hall y hy))
      · simp only [h0, Bool.false_eq_true, if_false, pyIterO, pyIter, R.bind_ok] at hp
        obtain ⟨bs, hbs, hp⟩ := bind_ok_inv hp
        simp only [R.pure_eq, Except.ok.injEq] at hp
        subst hp
        have hrel := mapM_rel1 (pack O (plainOf cx) fx t) (fun y r => printN O cx.passLeaves y = some r) xs bs hbs
          (fun y hy r hr => ident_natives cx fx t y r hf.2 hi.2 (hall y hy) hr)
        simp only [printN, printNL_of hrel, Option.map_some]
  | .map o k t, x, b, hf, hi, hc, hp => by
      simp only [Frag] at hf
      have ho : o = .dict := by cases o <;> simp [Ty.packIdent] at hi <;> rfl
      subst ho
      simp only [Ty.packIdent, Bool.and_eq_true] at hi
      simp only [Conf] at hc
      obtain ⟨kvs, rfl, hall⟩ := hc
      rw [pack] at hp
      by_cases h0 : (MapO.dict == MapO.dict && k.packIdent (plainOf cx) && t.packIdent (plainOf cx)) = true
      · have hnd : (plainOf cx).noCopyDict = false := rfl
        simp only [h0, if_true, hnd, Bool.false_eq_true, if_false, pyCopy, Except.ok.injEq] at hp
        subst hp
        simp only [Bool.and_eq_true] at h0
        refine printN_basic O _ _ ?_
        simp only [Basic]
        exact basicKV_of (fun kv hkv => ⟨ident_conf_basic (plainOf cx) (plainOf_plain cx) k kv.1 hf.1 h0.1.2 (hall kv hkv).1,
          ident_conf_basic (plainOf cx) (plainOf_plain cx) t kv.2 hf.2.1 h0.2 (hall kv hkv).2⟩)
      · simp only [h0, Bool.false_eq_true, if_false, pyItems, R.bind_ok] at hp
        obtain ⟨bs, hbs, hp⟩ := bind_ok_inv hp
        simp only [R.pure_eq, Except.ok.injEq] at hp
        subst hp
        have hnc : (MapO.dict == MapO.counter) = false := by decide
        simp only [hnc, Bool.false_eq_true, if_false] at hbs
        have hrel := mapM_rel1 (kvM (pack O (plainOf cx) fx k) (pack O (plainOf cx) fx t))
          (fun (y r : V × V) => printN O cx.passLeaves y.1 = some r.1 ∧ printN O cx.passLeaves y.2 = some r.2) kvs bs hbs
          (fun y hy r hr => by
            obtain ⟨h1, h2⟩ := kvM_inv hr
            exact ⟨ident_natives cx fx k y.1 r.1 hf.1 hi.1.2 (hall y hy).1 h1, ident_natives cx fx t y.2 r.2 hf.2.1 hi.2 (hall y hy).2 h2⟩)
        simp only [printN, printNKV_of hrel, Option.map_some]


theorem plain_ident_any_cx (cx : Cx) : ∀ (t : Ty), Frag t → t.packIdent (plainOf cx) = true → t.packIdent cx = true
  | .any, _, _ | .none, _, _ | .bool, _, _ | .int, _, _ | .float, _, _ | .str, _, _ => rfl
  | .leaf _, _, h => by simp [Ty.packIdent, plainOf] at h
  | .union _, hf, _ => by simp [Frag] at hf
  | .coll o _, _, h => by cases o <;> simp [Ty.packIdent, plainOf] at h
  | .map o _ _, _, h => by cases o <;> simp [Ty.packIdent, plainOf] at h
  | .enum _ _, _, h => by simp [Ty.packIdent] at h
  | .lit _, _, h => by simp [Ty.packIdent] at h
  | .opt t, hf, h => by
      simp only [Ty.packIdent] at h ⊢
      exact plain_ident_any_cx cx t (by simpa [Frag] using hf) h
  | .chain _ _, _, h => by simp [Ty.packIdent] at h
  | .tvar _, _, h => by simp [Ty.packIdent] at h
  | .tfix _, _, h => by simp [Ty.packIdent] at h
  | .tunp _ _ _, _, h => by simp [Ty.packIdent] at h
  | .nt _ _ _ _, _, h => by simp [Ty.packIdent] at h
  | .td _ _ _, _, h => by simp [Ty.packIdent] at h
  | .dc _ _ _, _, h => by simp [Ty.packIdent] at h

theorem printN_scalar (pl : List Leaf) (x : V) (h : BasicScalar x) : printN O pl x = some x :=
  printN_basic O pl x h.basic

mutual
theorem pack_natives : ∀ (S : Ty) (cx : Cx) (fx : Fx) (v bF b0 : V), Frag S → Conf S v →
    pack O cx fx S v = .ok bF → pack O (plainOf cx) fx S v = .ok b0 → printN O cx.passLeaves bF = some b0
  | .any, cx, fx, v, bF, b0, _, hc, h1, h2 => by
      rw [pack] at h1 h2; cases h1; cases h2
      exact printN_basic O _ v (by simpa only [Conf] using hc)
  | .none, cx, fx, v, bF, b0, _, hc, h1, h2 => by
      rw [pack] at h1 h2; cases h1; cases h2; simp only [Conf] at hc; subst hc; simp [printN]
  | .bool, cx, fx, v, bF, b0, _, hc, h1, h2 => by
      rw [pack] at h1 h2; cases h1; cases h2; simp only [Conf] at hc; obtain ⟨_, rfl⟩ := hc; simp [printN]
  | .int, cx, fx, v, bF, b0, _, hc, h1, h2 => by
      rw [pack] at h1 h2; cases h1; cases h2; simp only [Conf] at hc; obtain ⟨_, rfl⟩ := hc; simp [printN]
  | .float, cx, fx, v, bF, b0, _, hc, h1, h2 => by
      rw [pack] at h1 h2; cases h1; cases h2; simp only [Conf] at hc; obtain ⟨_, rfl⟩ := hc; simp [printN]
  | .str, cx, fx, v, bF, b0, _, hc, h1, h2 => by
      rw [pack] at h1 h2; cases h1; cases h2; simp only [Conf] at hc; obtain ⟨_, rfl⟩ := hc; simp [printN]
  | .leaf k, cx, fx, v, bF, b0, _, hc, h1, h2 => by
      simp only [Conf] at hc
      obtain ⟨c, rfl⟩ := hc
      rw [pack] at h1 h2
      have hpl : (plainOf cx).passLeaves = [] := rfl
      simp only [hpl, List.contains_nil, Bool.false_eq_true, if_false, Oracle.run] at h2
      obtain ⟨r, hr, hrs⟩ := hO.print_ok k c
      simp only [hr, Except.ok.injEq] at h2
      subst h2
      by_cases hp : cx.passLeaves.contains k = true
      · simp only [hp, if_true, Except.ok.injEq] at h1
        subst h1
        simp only [printN, hp, if_true, hr]
      · simp only [hp, Bool.false_eq_true, if_false, Oracle.run, hr, Except.ok.injEq] at h1
        subst h1
        exact printN_scalar O hO _ _ hrs
  | .enum cls ms, cx, fx, v, bF, b0, hf, hc, h1, h2 => by
      simp only [Conf] at hc
      obtain ⟨m, rfl, hm⟩ := hc
      obtain ⟨x, hx⟩ := Option.isSome_iff_exists.mp hm
      rw [pack] at h1 h2
      simp only [beq_self_eq_true, if_true, hx, Except.ok.injEq] at h1 h2
      subst h1; subst h2
      exact printN_scalar O hO _ _ (hf (m, x) (lookup_mem ms m x hx))
  | .lit vals, cx, fx, v, bF, b0, hf, hc, h1, h2 => by
      simp only [Conf] at hc
      obtain ⟨cw, hmem, rfl⟩ := hc
      have hsc : LitScalar cw.1 := hf cw hmem
      rw [pack] at h1 h2
      cases hfind : vals.find? (fun c => O.eq cw.1 c.1) with
      | none => simp [hfind] at h1 h2; split at h1 <;> cases h1
      | some cw' =>
        have hsc' : LitScalar cw'.1 := hf cw' (List.mem_of_find?_eq_some hfind)
        simp only [hfind] at h1 h2
        have e1 : bF = cw.1 := by
          cases hq : cw'.1 <;> simp_all [LitScalar]
        have e2 : b0 = cw.1 := by
          cases hq : cw'.1 <;> simp_all [LitScalar]
        subst e1; subst e2
        cases hq : cw.1 <;> simp_all [LitScalar, printN]
  | .opt t, cx, fx, v, bF, b0, hf, hc, h1, h2 => by
      by_cases hn : v = .none
      · subst hn
        rw [pack] at h1 h2; cases h1; cases h2; simp [printN]
      · have hnn : isNone v = false := isNone_false_of_ne hn
        rw [pack_opt_ne O cx fx t v hnn] at h1
        rw [pack_opt_ne O (plainOf cx) fx t v hnn] at h2
        simp only [Conf] at hc
        rcases hc with rfl | hc'
        · exact absurd rfl hn
        · exact pack_natives t cx fx v bF b0 (by simpa only [Frag] using hf) hc' h1 h2
  | .union ts, cx, fx, v, bF, b0, hf, _, _, _ => by simp [Frag] at hf
  | .coll o t, cx, fx, v, bF, b0, hf, hc, h1, h2 => by
      simp only [Frag] at hf
      obtain ⟨ho, hft⟩ := hf
      simp only [Conf] at hc
      obtain ⟨vs, rfl, hall⟩ := hc
      have hit : pyIterO O (.coll o vs) = .ok vs := by
        rcases ho with rfl | rfl | rfl | rfl <;> simp [pyIterO, pyIter]
      rw [pack] at h1 h2
      have hnl : (plainOf cx).noCopyList = false := rfl
      by_cases hF : (o == .list && t.packIdent cx) = true
      · -- by identity under the dialect: the list itself, whatever the no-copy setting
        have ho' : o = .list := by simp only [Bool.and_eq_true, beq_iff_eq] at hF; exact hF.1
        have hti : t.packIdent cx = true := by simp only [Bool.and_eq_true] at hF; exact hF.2
        subst ho'
        have e1 : bF = .coll .list vs := by
          simp only [hF, if_true, pyCopy] at h1
          split at h1 <;> cases h1 <;> rfl
        subst e1
        by_cases h0 : (CollO.list == CollO.list && t.packIdent (plainOf cx)) = true
        · simp only [h0, if_true, hnl, Bool.false_eq_true, if_false, pyCopy, Except.ok.injEq] at h2
          subst h2
          have hti0 : t.packIdent (plainOf cx) = true := by simpa using h0
          refine printN_basic O _ _ ?_
          simp only [Basic]
          exact basicL_of (fun y hy => ident_conf_basic (plainOf cx) (plainOf_plain cx) t y hft hti0 (hall y hy))
        · simp only [h0, Bool.false_eq_true, if_false, hit, R.bind_ok] at h2
          obtain ⟨bs, hbs, h2⟩ := bind_ok_inv h2
          simp only [R.pure_eq, Except.ok.injEq] at h2
          subst h2
          have hrel := mapM_rel1 (pack O (plainOf cx) fx t) (fun y r => printN O cx.passLeaves y = some r) vs bs hbs
            (fun y hy r hr => ident_natives O hO cx fx t y r hft hti (hall y hy) hr)
          simp only [printN, printNL_of hrel, Option.map_some]
      · have h0 : (o == .list && t.packIdent (plainOf cx)) = false := by
          cases hq : (o == .list && t.packIdent (plainOf cx)) with
          | false => rfl
          | true =>
            exfalso; apply hF
            simp only [Bool.and_eq_true] at hq ⊢
            exact ⟨hq.1, plain_ident_any_cx O hO cx t hft hq.2⟩
        simp only [hF, Bool.false_eq_true, if_false, hit, R.bind_ok] at h1
        simp only [h0, Bool.false_eq_true, if_false, hit, R.bind_ok] at h2
        obtain ⟨as, has, h1⟩ := bind_ok_inv h1
        obtain ⟨bs, hbs, h2⟩ := bind_ok_inv h2
        simp only [R.pure_eq, Except.ok.injEq] at h1 h2
        subst h1; subst h2
        have hrel := mapM_rel (pack O cx fx t) (pack O (plainOf cx) fx t) (fun a b => printN O cx.passLeaves a = some b) vs as bs has hbs
          (fun y hy a b ha hb => pack_natives t cx fx y a b hft (hall y hy) ha hb)
        simp only [printN, printNL_of hrel, Option.map_some]
  | .map o k t, cx, fx, v, bF, b0, hf, hc, h1, h2 => by
      simp only [Frag] at hf
      obtain ⟨hfk, hft, hcnt⟩ := hf
      simp only [Conf] at hc
      obtain ⟨kvs, rfl, hall⟩ := hc
      rw [pack] at h1 h2
      have hnd : (plainOf cx).noCopyDict = false := rfl
      by_cases hF : (o == .dict && k.packIdent cx && t.packIdent cx) = true
      · simp only [Bool.and_eq_true, beq_iff_eq] at hF
        obtain ⟨⟨rfl, hki⟩, hti⟩ := hF
        have e1 : bF = .map .dict kvs := by
          simp only [beq_self_eq_true, hki, hti, Bool.and_self, if_true, pyCopy] at h1
          split at h1 <;> cases h1 <;> rfl
        subst e1
        by_cases h0 : (MapO.dict == MapO.dict && k.packIdent (plainOf cx) && t.packIdent (plainOf cx)) = true
        · simp only [h0, if_true, hnd, Bool.false_eq_true, if_false, pyCopy, Except.ok.injEq] at h2
          subst h2
          simp only [Bool.and_eq_true] at h0
          refine printN_basic O _ _ ?_
          simp only [Basic]
          exact basicKV_of (fun kv hkv => ⟨ident_conf_basic (plainOf cx) (plainOf_plain cx) k kv.1 hfk h0.1.2 (hall kv hkv).1,
            ident_conf_basic (plainOf cx) (plainOf_plain cx) t kv.2 hft h0.2 (hall kv hkv).2⟩)
        · simp only [h0, Bool.false_eq_true, if_false, pyItems, R.bind_ok] at h2
          obtain ⟨bs, hbs, h2⟩ := bind_ok_inv h2
          simp only [R.pure_eq, Except.ok.injEq] at h2
          subst h2
          have hnc : (MapO.dict == MapO.counter) = false := by decide
          simp only [hnc, Bool.false_eq_true, if_false] at hbs
          have hrel := mapM_rel1 (kvM (pack O (plainOf cx) fx k) (pack O (plainOf cx) fx t))
            (fun (y r : V × V) => printN O cx.passLeaves y.1 = some r.1 ∧ printN O cx.passLeaves y.2 = some r.2) kvs bs hbs
            (fun y hy r hr => by
              obtain ⟨g1, g2⟩ := kvM_inv hr
              exact ⟨ident_natives O hO cx fx k y.1 r.1 hfk hki (hall y hy).1 g1, ident_natives O hO cx fx t y.2 r.2 hft hti (hall y hy).2 g2⟩)
          simp only [printN, printNKV_of hrel, Option.map_some]
      · have h0 : (o == .dict && k.packIdent (plainOf cx) && t.packIdent (plainOf cx)) = false := by
          cases hq : (o == .dict && k.packIdent (plainOf cx) && t.packIdent (plainOf cx)) with
          | false => rfl
          | true =>
            exfalso; apply hF
            simp only [Bool.and_eq_true] at hq ⊢
            exact ⟨⟨hq.1.1, plain_ident_any_cx O hO cx k hfk hq.1.2⟩, plain_ident_any_cx O hO cx t hft hq.2⟩
        simp only [hF, Bool.false_eq_true, if_false, pyItems, R.bind_ok] at h1
        simp only [h0, Bool.false_eq_true, if_false, pyItems, R.bind_ok] at h2
        obtain ⟨as, has, h1⟩ := bind_ok_inv h1
        obtain ⟨bs, hbs, h2⟩ := bind_ok_inv h2
        simp only [R.pure_eq, Except.ok.injEq] at h1 h2
        subst h1; subst h2
        have hrel := mapM_rel (kvM (pack O cx fx k) (if o == .counter then pure else pack O cx fx t))
          (kvM (pack O (plainOf cx) fx k) (if o == .counter then pure else pack O (plainOf cx) fx t))
          (fun (a b : V × V) => printN O cx.passLeaves a.1 = some b.1 ∧ printN O cx.passLeaves a.2 = some b.2) kvs as bs has hbs
          (fun y hy a b ha hb => by
            obtain ⟨a1, a2⟩ := kvM_inv ha
            obtain ⟨b1, b2⟩ := kvM_inv hb
            refine ⟨pack_natives k cx fx y.1 a.1 b.1 hfk (hall y hy).1 a1 b1, ?_⟩
            by_cases hc' : (o == .counter) = true
            · have : t = .int := hcnt (by simpa using hc')
              subst this
              simp only [hc', if_true, R.pure_eq, Except.ok.injEq] at a2 b2
              obtain ⟨i, hi⟩ := (by simpa only [Conf] using (hall y hy).2 : ∃ i, y.2 = .int i)
              rw [← a2, ← b2, hi]; simp [printN]
            · simp only [hc', Bool.false_eq_true, if_false] at a2 b2
              exact pack_natives t cx fx y.2 a.2 b.2 hft (hall y hy).2 a2 b2)
        simp only [printN, printNKV_of hrel, Option.map_some]
  | .chain k t, cx, fx, v, bF, b0, hf, hc, h1, h2 => by
      simp only [Frag] at hf
      obtain ⟨hfk, hft⟩ := hf
      simp only [Conf] at hc
      obtain ⟨ms, rfl, hall⟩ := hc
      rw [pack] at h1 h2
      obtain ⟨as, has, h1⟩ := bind_ok_inv h1
      obtain ⟨bs, hbs, h2⟩ := bind_ok_inv h2
      simp only [R.pure_eq, Except.ok.injEq] at h1 h2
      subst h1; subst h2
      have hrel := mapM_rel (itemsM (kvM (pack O cx fx k) (pack O cx fx t))) (itemsM (kvM (pack O (plainOf cx) fx k) (pack O (plainOf cx) fx t)))
        (fun a b => printN O cx.passLeaves a = some b) ms as bs has hbs
        (fun m hm a b ha hb => by
          obtain ⟨kvs, rfl, hkv⟩ := hall m hm
          unfold itemsM at ha hb
          simp only [pyItems, R.bind_ok] at ha hb
          obtain ⟨ra, hra, ha⟩ := bind_ok_inv ha
          obtain ⟨rb, hrb, hb⟩ := bind_ok_inv hb
          simp only [R.pure_eq, Except.ok.injEq] at ha hb
          subst ha; subst hb
          have hr2 := mapM_rel _ _ (fun (a b : V × V) => printN O cx.passLeaves a.1 = some b.1 ∧ printN O cx.passLeaves a.2 = some b.2) kvs ra rb hra hrb
            (fun y hy a b ha hb => by
              obtain ⟨a1, a2⟩ := kvM_inv ha
              obtain ⟨b1, b2⟩ := kvM_inv hb
              exact ⟨pack_natives k cx fx y.1 a.1 b.1 hfk (hkv y hy).1 a1 b1, pack_natives t cx fx y.2 a.2 b.2 hft (hkv y hy).2 a2 b2⟩)
          simp only [printN, printNKV_of hr2, Option.map_some])
      simp only [printN, printNL_of hrel, Option.map_some]
  | .tvar t, cx, fx, v, bF, b0, hf, hc, h1, h2 => by
      simp only [Conf] at hc
      obtain ⟨vs, rfl, hall⟩ := hc
      rw [pack] at h1 h2
      simp only [pyIterO, pyIter, R.bind_ok] at h1 h2
      obtain ⟨as, has, h1⟩ := bind_ok_inv h1
      obtain ⟨bs, hbs, h2⟩ := bind_ok_inv h2
      simp only [R.pure_eq, Except.ok.injEq] at h1 h2
      subst h1; subst h2
      have hrel := mapM_rel (pack O cx fx t) (pack O (plainOf cx) fx t) (fun a b => printN O cx.passLeaves a = some b) vs as bs has hbs
        (fun y hy a b ha hb => pack_natives t cx fx y a b (by simpa only [Frag] using hf) (hall y hy) ha hb)
      simp only [printN, printNL_of hrel, Option.map_some]
  | .tfix ts, cx, fx, v, bF, b0, hf, hc, h1, h2 => by
      simp only [Conf] at hc
      obtain ⟨vs, rfl, hall⟩ := hc
      rw [pack] at h1 h2
      obtain ⟨as, has, h1⟩ := bind_ok_inv h1
      obtain ⟨bs, hbs, h2⟩ := bind_ok_inv h2
      simp only [R.pure_eq, Except.ok.injEq] at h1 h2
      subst h1; subst h2
      have hrel := packIdx_natives ts cx fx [] vs as bs (by simpa only [Frag] using hf) hall (by simpa using has) (by simpa using hbs)
      simp only [printN, printNL_of hrel, Option.map_some]
  | .tunp _ _ _, cx, fx, v, bF, b0, hf, _, _, _ => by simp [Frag] at hf
  | .nt cls fs defs asD, cx, fx, v, bF, b0, hf, hc, h1, h2 => by
      simp only [Conf] at hc
      obtain ⟨vs, rfl, hall⟩ := hc
      rw [pack] at h1 h2
      obtain ⟨as, has, h1⟩ := bind_ok_inv h1
      obtain ⟨bs, hbs, h2⟩ := bind_ok_inv h2
      have hrel := packNT_natives cls fs cx fx [] vs as bs (by simpa only [Frag] using hf) hall (by simpa using has) (by simpa using hbs)
      have hnt : (plainOf cx).ntAsDict = cx.ntAsDict := rfl
      rw [hnt] at h2
      by_cases hd : (asD.getD cx.ntAsDict) = true
      · simp only [hd, if_true, R.pure_eq, Except.ok.injEq] at h1 h2
        subst h1; subst h2
        have := rel2_nt_kv hrel
        simp only [printN, this, Option.map_some]
      · simp only [hd, Bool.false_eq_true, if_false, R.pure_eq, Except.ok.injEq] at h1 h2
        subst h1; subst h2
        have := rel2_nt_l hrel
        simp only [printN, this, Option.map_some]
  | .td _ _ _, cx, fx, v, bF, b0, hf, _, _, _ => by simp [Frag] at hf
  | .dc cls cfg fs, cx, fx, v, bF, b0, hf, hc, h1, h2 => by
      simp only [Frag] at hf
      obtain ⟨hff, hnd⟩ := hf
      simp only [Conf] at hc
      obtain ⟨ivs, rfl, hall⟩ := hc
      have hl := confF_lookup fs ivs hall hnd
      rw [pack] at h1 h2
      have hnl : (plainOf cx).nailed = cx.nailed := rfl
      rw [hnl] at h2
      by_cases hg : (cx.nailed && cls != cls) = true
      · simp at hg
      · simp only [hg, Bool.false_eq_true, if_false] at h1 h2
        obtain ⟨es, hes, h1⟩ := bind_ok_inv h1
        obtain ⟨gs, hgs, h2⟩ := bind_ok_inv h2
        simp only [R.pure_eq, Except.ok.injEq] at h1 h2
        subst h1; subst h2
        have hgs' : packFields O (plainOf { cx with ntAsDict := cfg.ntAsDict }) cls cfg fs ivs = .ok gs := hgs
        have hrel := packFields_natives cls cfg ivs fs { cx with ntAsDict := cfg.ntAsDict } es gs hff hl hes hgs'
        have hrel' : Rel2 (RE O cx.passLeaves) (if cfg.sortKeys then sortEntries es else es) (if cfg.sortKeys then sortEntries gs else gs) := by
          split
          · exact sortEntries_rel hrel
          · exact hrel
        simp only [printN, rel2_map_kv hrel', Option.map_some]

theorem packIdx_natives : ∀ (ts : List Ty) (cx : Cx) (fx : Fx) (pre vs : List V) (as bs : List V), FragL ts → ConfL ts vs →
    packIdx O cx fx ts (.coll .tuple (pre ++ vs)) (pre.length : Int) = .ok as →
    packIdx O (plainOf cx) fx ts (.coll .tuple (pre ++ vs)) (pre.length : Int) = .ok bs →
    Rel2 (fun a b => printN O cx.passLeaves a = some b) as bs
  | [], cx, fx, pre, vs, as, bs, _, _, h1, h2 => by
      rw [packIdx] at h1 h2; cases h1; cases h2; exact .nil
  | t :: ts, cx, fx, pre, vs, as, bs, hf, hc, h1, h2 => by
      cases vs with
      | nil => simp [ConfL] at hc
      | cons x xs =>
        simp only [ConfL] at hc
        simp only [FragL] at hf
        rw [packIdx] at h1 h2
        have hidx : pyIndex (.coll .tuple (pre ++ x :: xs)) (pre.length : Int) = .ok x :=
          pyIndex_tuple _ _ _ (by simp)
        have hx1 : (if t.constPack = true then pure V.none else pyIndexO O (.coll .tuple (pre ++ x :: xs)) (pre.length : Int)) >>= (fun y => pack O cx fx t y) = pack O cx fx t x := by
          by_cases hcp : t.constPack = true
          · simp only [hcp, if_true, R.pure_eq, R.bind_ok]; exact pack_const O cx fx t hcp V.none x
          · simp only [hcp, Bool.false_eq_true, if_false, pyIndexO, hidx, R.bind_ok]
        have hx2 : (if t.constPack = true then pure V.none else pyIndexO O (.coll .tuple (pre ++ x :: xs)) (pre.length : Int)) >>= (fun y => pack O (plainOf cx) fx t y) = pack O (plainOf cx) fx t x := by
          by_cases hcp : t.constPack = true
          · simp only [hcp, if_true, R.pure_eq, R.bind_ok]; exact pack_const O (plainOf cx) fx t hcp V.none x
          · simp only [hcp, Bool.false_eq_true, if_false, pyIndexO, hidx, R.bind_ok]
        obtain ⟨y1, hy1, h1⟩ := bind_ok_inv h1
        obtain ⟨a, ha, h1⟩ := bind_ok_inv h1
        obtain ⟨ra, hra, h1⟩ := bind_ok_inv h1
        obtain ⟨y2, hy2, h2⟩ := bind_ok_inv h2
        obtain ⟨b, hb, h2⟩ := bind_ok_inv h2
        obtain ⟨rb, hrb, h2⟩ := bind_ok_inv h2
        simp only [R.pure_eq, Except.ok.injEq] at h1 h2
        subst h1; subst h2
        have ha' : pack O cx fx t x = .ok a := by rw [← hx1, hy1]; exact ha
        have hb' : pack O (plainOf cx) fx t x = .ok b := by rw [← hx2, hy2]; exact hb
        have hcast : ((pre ++ [x]).length : Int) = (pre.length : Int) + 1 := by simp
        have e : pre ++ x :: xs = (pre ++ [x]) ++ xs := by simp
        rw [e, ← hcast] at hra hrb
        exact .cons (pack_natives t cx fx x a b hf.1 hc.1 ha' hb') (packIdx_natives ts cx fx (pre ++ [x]) xs ra rb hf.2 hc.2 hra hrb)

theorem packNT_natives : ∀ (cls : String) (fs : List (String × Ty)) (cx : Cx) (fx : Fx) (pre vs : List V) (as bs : List (String × V)),
    FragN fs → ConfN fs vs →
    packNT O cx fx fs (.ntuple cls (pre ++ vs)) (pre.length : Int) = .ok as →
    packNT O (plainOf cx) fx fs (.ntuple cls (pre ++ vs)) (pre.length : Int) = .ok bs →
    Rel2 (fun (a b : String × V) => a.1 = b.1 ∧ printN O cx.passLeaves a.2 = some b.2) as bs
  | _, [], cx, fx, pre, vs, as, bs, _, _, h1, h2 => by
      rw [packNT] at h1 h2; cases h1; cases h2; exact .nil
  | cls, (n, t) :: fs, cx, fx, pre, vs, as, bs, hf, hc, h1, h2 => by
      cases vs with
      | nil => simp [ConfN] at hc
      | cons x xs =>
        simp only [ConfN] at hc
        simp only [FragN] at hf
        rw [packNT] at h1 h2
        have hidx : pyIndex (.ntuple cls (pre ++ x :: xs)) (pre.length : Int) = .ok x :=
          pyIndex_ntuple _ _ _ _ (by simp)
        have hx1 : (if t.constPack = true then pure V.none else pyIndexO O (.ntuple cls (pre ++ x :: xs)) (pre.length : Int)) >>= (fun y => pack O cx fx t y) = pack O cx fx t x := by
          by_cases hcp : t.constPack = true
          · simp only [hcp, if_true, R.pure_eq, R.bind_ok]; exact pack_const O cx fx t hcp V.none x
          · simp only [hcp, Bool.false_eq_true, if_false, pyIndexO, hidx, R.bind_ok]
        have hx2 : (if t.constPack = true then pure V.none else pyIndexO O (.ntuple cls (pre ++ x :: xs)) (pre.length : Int)) >>= (fun y => pack O (plainOf cx) fx t y) = pack O (plainOf cx) fx t x := by
          by_cases hcp : t.constPack = true
          · simp only [hcp, if_true, R.pure_eq, R.bind_ok]; exact pack_const O (plainOf cx) fx t hcp V.none x
          · simp only [hcp, Bool.false_eq_true, if_false, pyIndexO, hidx, R.bind_ok]
        obtain ⟨y1, hy1, h1⟩ := bind_ok_inv h1
        obtain ⟨a, ha, h1⟩ := bind_ok_inv h1
        obtain ⟨ra, hra, h1⟩ := bind_ok_inv h1
        obtain ⟨y2, hy2, h2⟩ := bind_ok_inv h2
        obtain ⟨b, hb, h2⟩ := bind_ok_inv h2
        obtain ⟨rb, hrb, h2⟩ := bind_ok_inv h2
        simp only [R.pure_eq, Except.ok.injEq] at h1 h2
        subst h1; subst h2
        have ha' : pack O cx fx t x = .ok a := by rw [← hx1, hy1]; exact ha
        have hb' : pack O (plainOf cx) fx t x = .ok b := by rw [← hx2, hy2]; exact hb
        have hcast : ((pre ++ [x]).length : Int) = (pre.length : Int) + 1 := by simp
        have e : pre ++ x :: xs = (pre ++ [x]) ++ xs := by simp
        rw [e, ← hcast] at hra hrb
        exact .cons ⟨rfl, pack_natives t cx fx x a b hf.1 hc.1 ha' hb'⟩ (packNT_natives cls fs cx fx (pre ++ [x]) xs ra rb hf.2 hc.2 hra hrb)

theorem packFields_natives : ∀ (cls : String) (cfg : Cfg) (ivs : List (String × V)) (fs : List (FieldDef × Ty)) (cx : Cx) (es gs : List Entry),
    FragF fs →
    (∀ ft ∈ fs, ∃ v, ivs.lookup ft.1.name = some v ∧ (Conf ft.2 v ∨ (v = .none ∧ ft.1.default = some .none))) →
    packFields O cx cls cfg fs ivs = .ok es → packFields O (plainOf cx) cls cfg fs ivs = .ok gs →
    Rel2 (RE O cx.passLeaves) es gs
  | _, _, _, [], cx, es, gs, _, _, h1, h2 => by
      rw [packFields] at h1 h2; cases h1; cases h2; exact .nil
  | cls, cfg, ivs, (f, t) :: fs, cx, es, gs, hf, hl, h1, h2 => by
      simp only [FragF] at hf
      have ih := fun es' gs' => packFields_natives cls cfg ivs fs cx es' gs' hf.2 (fun ft hft => hl ft (by simp [hft]))
      obtain ⟨x, hx, hcx⟩ := hl (f, t) (by simp)
      have hattr : attr ivs f.name = .ok x := by simp [attr, hx]
      rw [packFields] at h1 h2
      by_cases hom : f.serOmit = true
      · simp only [hom, if_true] at h1 h2
        exact ih es gs h1 h2
      · simp only [hom, Bool.false_eq_true, if_false, hattr, R.bind_ok] at h1 h2
        by_cases hnn : (fieldCouldBeNone f t && isNone x) = true
        · simp only [hnn, if_true] at h1 h2
          obtain ⟨r1, hr1, h1⟩ := bind_ok_inv h1
          obtain ⟨r2, hr2, h2⟩ := bind_ok_inv h2
          simp only [R.pure_eq, Except.ok.injEq] at h1 h2
          subst h1; subst h2
          split
          · exact ih r1 r2 hr1 hr2
          · exact .cons ⟨rfl, rfl, by simp [printN]⟩ (ih r1 r2 hr1 hr2)
        · have hconf : Conf t x := by
            rcases hcx with h | ⟨rfl, hd⟩
            · exact h
            · exfalso; apply hnn
              have hd' : f.default = some .none := hd
              simp [fieldCouldBeNone, FieldDef.defaultIsNone, hd', isNone]
          simp only [hnn, Bool.false_eq_true, if_false] at h1 h2
          obtain ⟨a, ha, h1⟩ := bind_ok_inv h1
          obtain ⟨r1, hr1, h1⟩ := bind_ok_inv h1
          obtain ⟨b, hb, h2⟩ := bind_ok_inv h2
          obtain ⟨r2, hr2, h2⟩ := bind_ok_inv h2
          simp only [R.pure_eq, Except.ok.injEq] at h1 h2
          subst h1; subst h2
          split
          · exact ih r1 r2 hr1 hr2
          · exact .cons ⟨rfl, rfl, pack_natives t cx { field := f.name, holder := cls } x a b hf.1 hconf ha hb⟩ (ih r1 r2 hr1 hr2)
end

/-- **C04, "equals the format encoding of the basic form".**  Under any format dialect (set of
    pass-through leaf kinds, no-copy settings) the serializer's output, with its native leaves
    rendered the way the format library renders them, IS the basic-form serialization. -/
theorem format_equals_basic (S : Ty) (cx : Cx) (fx : Fx) (v bF : V) (hf : Frag S) (hc : Conf S v)
    (h1 : pack O cx fx S v = .ok bF) :
    ∃ b0, pack O (plainOf cx) fx S v = .ok b0 ∧ printN O cx.passLeaves bF = some b0 := by
  obtain ⟨b0, hb0, _⟩ := pack_basic O hO S (plainOf cx) fx v (plainOf_plain cx) hf hc
  exact ⟨b0, hb0, pack_natives O hO S cx fx v bF b0 hf hc h1 hb0⟩

/-- **C04, losslessness.**  If the format library turns the serializer's output into the document
    `d` (native leaves rendered as documented: `printN`), then deserializing `d` with the plain
    deserializer — what the Decoder does after the library parsed the document — returns the
    original value.  (For formats that hand native objects back — msgpack bytes, TOML dates — the
    same statement with the identity in place of `printN` is C01's `roundtrip` itself.) -/
theorem format_roundtrip (hR : RtLaws O) (S : Ty) (cx : Cx) (fx : Fx) (v bF d : V) (hf : Frag S) (hl : Lossless O S)
    (hc : Conf S v) (h1 : pack O cx fx S v = .ok bF) (hd : printN O cx.passLeaves bF = some d) :
    unpack O (plainOf cx) fx S d = .ok v := by
  obtain ⟨b, hb, hu⟩ := roundtrip O hR S (plainOf cx) fx v (plainOf_plain cx) hf hl hc
  have := pack_natives O hO S cx fx v bF b hf hc h1 hb
  rw [hd] at this
  cases this
  exact hu

end

/-- the format dialects extracted from the source on this run have pairwise distinct names and are
    the three the documentation lists -/
theorem format_names_distinct :
    (Mashu.Generated.formatDialects.map (·.name)) = ["OrjsonDialect", "MessagePackDialect", "TOMLDialect"] := by decide

end Mashu
