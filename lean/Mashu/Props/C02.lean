/-
  C02 — serialization emits the documented basic form.

  `pack` *is* the reference encoder REF_ENCODE of the property (its agreement with the
  implementation is the correspondence check); the theorems here are about its range:
  for every schema of the fragment and every conforming value the serializer is total and
  its result contains only None/bool/int/float/str/list/dict.
-/
import Mashu.Frag
import Mashu.Generated
namespace Mashu

theorem ident_conf_basic (cx : Cx) (hp : cx.plain) : ∀ (t : Ty) (v : V), Frag t → t.packIdent cx = true → Conf t v → Basic v
  | .any, v, _, _, hc => by simpa only [Conf] using hc
  | .none, v, _, _, hc => by simp only [Conf] at hc; subst hc; simp [Basic]
  | .bool, v, _, _, hc => by simp only [Conf] at hc; obtain ⟨b, rfl⟩ := hc; simp [Basic]
  | .int, v, _, _, hc => by simp only [Conf] at hc; obtain ⟨b, rfl⟩ := hc; simp [Basic]
  | .float, v, _, _, hc => by simp only [Conf] at hc; obtain ⟨b, rfl⟩ := hc; simp [Basic]
  | .str, v, _, _, hc => by simp only [Conf] at hc; obtain ⟨b, rfl⟩ := hc; simp [Basic]
  | .union _, _, hf, _, _ => by simp [Frag] at hf
  | .leaf _, _, _, hi, _ => by simp [Ty.packIdent, hp.1] at hi
  | .enum _ _, _, _, hi, _ => by simp [Ty.packIdent] at hi
  | .lit _, _, _, hi, _ => by simp [Ty.packIdent] at hi
  | .opt t, v, hf, hi, hc => by
      simp only [Conf] at hc
      rcases hc with rfl | hc
      · simp [Basic]
      · exact ident_conf_basic cx hp t v (by simpa [Frag] using hf) (by simpa [Ty.packIdent] using hi) hc
  | .coll o _, _, _, hi, _ => by cases o <;> simp [Ty.packIdent, hp.2.1] at hi
  | .map o _ _, _, _, hi, _ => by cases o <;> simp [Ty.packIdent, hp.2.2] at hi
  | .chain _ _, _, _, hi, _ => by simp [Ty.packIdent] at hi
  | .tvar _, _, _, hi, _ => by simp [Ty.packIdent] at hi
  | .tfix _, _, _, hi, _ => by simp [Ty.packIdent] at hi
  | .tunp _ _ _, _, _, hi, _ => by simp [Ty.packIdent] at hi
  | .nt _ _ _ _, _, _, hi, _ => by simp [Ty.packIdent] at hi
  | .td _ _ _, _, _, hi, _ => by simp [Ty.packIdent] at hi
  | .dc _ _ _, _, _, hi, _ => by simp [Ty.packIdent] at hi

theorem pyIndex_tuple (vs : List V) (i : Nat) (x : V) (h : vs[i]? = some x) :
    pyIndex (.coll .tuple vs) (i : Int) = .ok x := by
  have hlt : i < vs.length := by
    rcases Nat.lt_or_ge i vs.length with h' | h'
    · exact h'
    · simp [List.getElem?_eq_none h'] at h
  simp only [pyIndex, pySeq]
  have h1 : ¬ ((i : Int) < 0) := by omega
  simp only [h1, if_false]
  have h3 : ¬ ((i : Int) ≥ (vs.length : Int)) := by omega
  simp [h3, h]

theorem pyIndex_ntuple (c : String) (vs : List V) (i : Nat) (x : V) (h : vs[i]? = some x) :
    pyIndex (.ntuple c vs) (i : Int) = .ok x := by
  have hlt : i < vs.length := by
    rcases Nat.lt_or_ge i vs.length with h' | h'
    · exact h'
    · simp [List.getElem?_eq_none h'] at h
  simp only [pyIndex, pySeq]
  have h1 : ¬ ((i : Int) < 0) := by omega
  simp only [h1, if_false]
  have h3 : ¬ ((i : Int) ≥ (vs.length : Int)) := by omega
  simp [h3, h]

theorem mem_insertEntry (e x : Entry) (es : List Entry) : x ∈ insertEntry e es ↔ x = e ∨ x ∈ es := by
  induction es with
  | nil => simp [insertEntry]
  | cons y ys ih =>
    simp only [insertEntry]
    split
    · simp
    · simp [ih]; constructor
      · rintro (h | h | h) <;> simp [h]
      · rintro (h | h | h) <;> simp [h]

theorem mem_sortEntries (x : Entry) (es : List Entry) : x ∈ sortEntries es ↔ x ∈ es := by
  induction es with
  | nil => simp [sortEntries]
  | cons y ys ih => simp [sortEntries, mem_insertEntry, ih]

theorem confF_lookup : ∀ (fs : List (FieldDef × Ty)) (ivs : List (String × V)),
    ConfF fs ivs → (fs.map (·.1.name)).Nodup →
    ∀ ft ∈ fs, ∃ v, ivs.lookup ft.1.name = some v ∧ (Conf ft.2 v ∨ (v = .none ∧ ft.1.default = some .none)) := by
  intro fs
  induction fs with
  | nil => intro ivs _ _ ft h; simp at h
  | cons p fs ih =>
    intro ivs hc hn ft hm
    obtain ⟨f, t⟩ := p
    cases ivs with
    | nil => simp [ConfF] at hc
    | cons q ivs =>
      obtain ⟨n, v⟩ := q
      simp only [ConfF] at hc
      obtain ⟨hname, hv, hrest⟩ := hc
      simp only [List.map_cons, List.nodup_cons] at hn
      cases hm with
      | head => exact ⟨v, by simp [List.lookup, hname], hv⟩
      | tail _ hm' =>
        obtain ⟨v', hl, hv'⟩ := ih ivs hrest hn.2 ft hm'
        refine ⟨v', ?_, hv'⟩
        have hne : ft.1.name ≠ n := by
          intro he
          apply hn.1
          rw [← hname, ← he]
          exact List.mem_map_of_mem (f := fun x : FieldDef × Ty => x.1.name) hm'
        have hb : (ft.1.name == n) = false := by simp [hne]
        simp [List.lookup, hb, hl]

section
variable (O : Oracle) (hO : PrintLaws O)
include hO
set_option linter.unusedVariables false

mutual
theorem pack_basic : ∀ (S : Ty) (cx : Cx) (fx : Fx) (v : V), cx.plain → Frag S → Conf S v →
    ∃ b, pack O cx fx S v = .ok b ∧ Basic b
  | .any, cx, fx, v, hp, _, hc => ⟨v, by rw [pack], by simpa only [Conf] using hc⟩
  | .none, cx, fx, v, hp, _, hc => by
      simp only [Conf] at hc; subst hc
      exact ⟨_, by rw [pack], by simp [Basic]⟩
  | .bool, cx, fx, v, hp, _, hc => by
      simp only [Conf] at hc; obtain ⟨_, rfl⟩ := hc
      exact ⟨_, by rw [pack], by simp [Basic]⟩
  | .int, cx, fx, v, hp, _, hc => by
      simp only [Conf] at hc; obtain ⟨_, rfl⟩ := hc
      exact ⟨_, by rw [pack], by simp [Basic]⟩
  | .float, cx, fx, v, hp, _, hc => by
      simp only [Conf] at hc; obtain ⟨_, rfl⟩ := hc
      exact ⟨_, by rw [pack], by simp [Basic]⟩
  | .str, cx, fx, v, hp, _, hc => by
      simp only [Conf] at hc; obtain ⟨_, rfl⟩ := hc
      exact ⟨_, by rw [pack], by simp [Basic]⟩
  | .leaf k, cx, fx, v, hp, _, hc => by
      simp only [Conf] at hc
      obtain ⟨c, rfl⟩ := hc
      obtain ⟨b, hb, hs⟩ := hO.print_ok k c
      exact ⟨b, by rw [pack]; simp [hp.1, Oracle.run, hb], hs.basic⟩
  | .enum cls ms, cx, fx, v, hp, hf, hc => by
      simp only [Conf] at hc
      obtain ⟨m, rfl, hm⟩ := hc
      obtain ⟨x, hx⟩ := Option.isSome_iff_exists.mp hm
      refine ⟨x, by rw [pack]; simp [hx], ?_⟩
      exact (hf (m, x) (lookup_mem ms m x hx)).basic
  | .lit vals, cx, fx, v, hp, hf, hc => by
      simp only [Conf] at hc
      obtain ⟨cw, hmem, rfl⟩ := hc
      have hsc : LitScalar cw.1 := hf cw hmem
      have hex : ∃ cw', vals.find? (fun c => O.eq cw.1 c.1) = some cw' := by
        rcases hfind : vals.find? (fun c => O.eq cw.1 c.1) with _ | cw'
        · rw [List.find?_eq_none] at hfind
          have := hfind cw hmem
          simp [hO.eq_refl cw.1 hsc] at this
        · exact ⟨cw', hfind⟩
      obtain ⟨cw', hfind⟩ := hex
      have hmem' : cw' ∈ vals := List.mem_of_find?_eq_some hfind
      have hsc' : LitScalar cw'.1 := hf cw' hmem'
      refine ⟨cw.1, ?_, ?_⟩
      · rw [pack]; simp only [hfind]
        cases h1 : cw'.1 <;> simp_all [LitScalar]
      · cases h1 : cw.1 <;> simp_all [LitScalar, Basic]
  | .opt t, cx, fx, v, hp, hf, hc => by
      simp only [Conf] at hc
      rcases hc with rfl | hc'
      · exact ⟨.none, by rw [pack], by simp [Basic]⟩
      · obtain ⟨b, hb, hbb⟩ := pack_basic t cx fx v hp (by simpa only [Frag] using hf) hc'
        by_cases hn : v = .none
        · subst hn; exact ⟨.none, by rw [pack], by simp [Basic]⟩
        · refine ⟨b, ?_, hbb⟩
          rw [pack] <;> first | exact hb | exact hn
  | .union ts, cx, fx, v, hp, hf, _ => by simp [Frag] at hf
  | .coll o t, cx, fx, v, hp, hf, hc => by
      simp only [Frag] at hf
      obtain ⟨ho, hft⟩ := hf
      simp only [Conf] at hc
      obtain ⟨vs, rfl, hall⟩ := hc
      by_cases hid : (o == .list && t.packIdent cx) = true
      · have ho' : o = .list := by
          simp only [Bool.and_eq_true, beq_iff_eq] at hid; exact hid.1
        have hti : t.packIdent cx = true := by
          simp only [Bool.and_eq_true] at hid; exact hid.2
        subst ho'
        refine ⟨.coll .list vs, by rw [pack]; simp [hp.2.1, hti, pyCopy], ?_⟩
        simp only [Basic]
        exact basicL_of (fun x hx => ident_conf_basic cx hp t x hft hti (hall x hx))
      · obtain ⟨bs, hbs, hbb⟩ := mapM_ok (pack O cx fx t) Basic vs
          (fun x hx => pack_basic t cx fx x hp hft (hall x hx))
        refine ⟨.coll .list bs, ?_, by simp only [Basic]; exact basicL_of hbb⟩
        rw [pack]
        have hit : pyIterO O (.coll o vs) = .ok vs := by
          rcases ho with rfl | rfl | rfl | rfl <;> simp [pyIterO, pyIter]
        simp only [hid, hit, R.bind_ok, hbs, R.pure_eq]
        simp
  | .map o k t, cx, fx, v, hp, hf, hc => by
      simp only [Frag] at hf
      obtain ⟨hfk, hft, hcnt⟩ := hf
      simp only [Conf] at hc
      obtain ⟨kvs, rfl, hall⟩ := hc
      by_cases hid : (o == .dict && k.packIdent cx && t.packIdent cx) = true
      · simp only [Bool.and_eq_true, beq_iff_eq] at hid
        obtain ⟨⟨rfl, hki⟩, hti⟩ := hid
        refine ⟨.map .dict kvs, by rw [pack]; simp [hp.2.2, hki, hti, pyCopy], ?_⟩
        simp only [Basic]
        exact basicKV_of (fun kv hkv => ⟨ident_conf_basic cx hp k kv.1 hfk hki (hall kv hkv).1,
          ident_conf_basic cx hp t kv.2 hft hti (hall kv hkv).2⟩)
      · obtain ⟨bs, hbs, hbb⟩ := mapM_ok (kvM (pack O cx fx k) (if o == .counter then pure else pack O cx fx t))
            (fun p : V × V => Basic p.1 ∧ Basic p.2) kvs
          (fun kv hkv => by
            apply kvM_ok _ _ Basic Basic kv (pack_basic k cx fx kv.1 hp hfk (hall kv hkv).1)
            by_cases hc' : (o == .counter) = true
            · have : t = .int := hcnt (by simpa using hc')
              subst this
              obtain ⟨i, hi⟩ := (by simpa only [Conf] using (hall kv hkv).2 : ∃ i, kv.2 = .int i)
              exact ⟨kv.2, by simp only [hc', if_true, R.pure_eq], by simp [hi, Basic]⟩
            · simp only [hc']
              exact pack_basic t cx fx kv.2 hp hft (hall kv hkv).2)
        refine ⟨.map .dict bs, ?_, by simp only [Basic]; exact basicKV_of hbb⟩
        rw [pack]
        simp only [hid, pyItems, R.bind_ok, hbs, R.pure_eq]
        simp
  | .chain k t, cx, fx, v, hp, hf, hc => by
      simp only [Frag] at hf
      obtain ⟨hfk, hft⟩ := hf
      simp only [Conf] at hc
      obtain ⟨ms, rfl, hall⟩ := hc
      obtain ⟨bs, hbs, hbb⟩ := mapM_ok (itemsM (kvM (pack O cx fx k) (pack O cx fx t))) Basic ms
        (fun m hm => by
          obtain ⟨kvs, rfl, hkv⟩ := hall m hm
          obtain ⟨r, hr, hrb⟩ := itemsM_ok .dict (kvM (pack O cx fx k) (pack O cx fx t))
            (fun p : V × V => Basic p.1 ∧ Basic p.2) kvs
            (fun kv hkv' => kvM_ok _ _ Basic Basic kv (pack_basic k cx fx kv.1 hp hfk (hkv kv hkv').1)
              (pack_basic t cx fx kv.2 hp hft (hkv kv hkv').2))
          exact ⟨.map .dict r, hr, by simp only [Basic]; exact basicKV_of hrb⟩)
      refine ⟨.coll .list bs, ?_, by simp only [Basic]; exact basicL_of hbb⟩
      rw [pack]
      simp only [R.bind_ok, hbs, R.pure_eq]
  | .tvar t, cx, fx, v, hp, hf, hc => by
      simp only [Conf] at hc
      obtain ⟨vs, rfl, hall⟩ := hc
      obtain ⟨bs, hbs, hbb⟩ := mapM_ok (pack O cx fx t) Basic vs
        (fun x hx => pack_basic t cx fx x hp (by simpa only [Frag] using hf) (hall x hx))
      refine ⟨.coll .list bs, ?_, by simp only [Basic]; exact basicL_of hbb⟩
      rw [pack]
      simp only [pyIterO, pyIter, R.bind_ok, hbs, R.pure_eq]
  | .tfix ts, cx, fx, v, hp, hf, hc => by
      simp only [Conf] at hc
      obtain ⟨vs, rfl, hall⟩ := hc
      obtain ⟨bs, hbs, hbb⟩ := packIdx_basic ts cx fx [] vs hp (by simpa only [Frag] using hf) hall
      refine ⟨.coll .list bs, ?_, by simp only [Basic]; exact basicL_of hbb⟩
      rw [pack]
      simp at hbs
      simp [hbs, bind, Except.bind, pure, Except.pure]
  | .tunp _ _ _, cx, fx, v, hp, hf, _ => by simp [Frag] at hf
  | .nt cls fs defs asD, cx, fx, v, hp, hf, hc => by
      simp only [Conf] at hc
      obtain ⟨vs, rfl, hall⟩ := hc
      obtain ⟨bs, hbs, hbb⟩ := packNT_basic cls fs cx fx [] vs hp (by simpa only [Frag] using hf) hall
      simp at hbs
      by_cases hd : (asD.getD cx.ntAsDict) = true
      · refine ⟨.map .dict (bs.map (fun nv => (V.str nv.1, nv.2))), ?_, ?_⟩
        · rw [pack]; simp [hbs, hd, bind, Except.bind, pure, Except.pure]
        · simp only [Basic]
          apply basicKV_of
          intro kv hkv
          obtain ⟨nv, hnv, rfl⟩ := List.mem_map.mp hkv
          exact ⟨by simp [Basic], hbb nv hnv⟩
      · refine ⟨.coll .list (bs.map (·.2)), ?_, ?_⟩
        · rw [pack]; simp [hbs, hd, bind, Except.bind, pure, Except.pure]
        · simp only [Basic]
          apply basicL_of
          intro x hx
          obtain ⟨nv, hnv, rfl⟩ := List.mem_map.mp hx
          exact hbb nv hnv
  | .td _ _ _, cx, fx, v, hp, hf, _ => by simp [Frag] at hf
  | .dc cls cfg fs, cx, fx, v, hp, hf, hc => by
      simp only [Frag] at hf
      obtain ⟨hff, hnd⟩ := hf
      simp only [Conf] at hc
      obtain ⟨ivs, rfl, hall⟩ := hc
      have hl := confF_lookup fs ivs hall hnd
      obtain ⟨es, hes, heb⟩ := packFields_basic cls cfg ivs fs { cx with ntAsDict := cfg.ntAsDict } hp hff hl
      refine ⟨.map .dict ((if cfg.sortKeys then sortEntries es else es).map (fun e => (V.str e.key, e.val))), ?_, ?_⟩
      · rw [pack]; simp [hes, bind, Except.bind, pure, Except.pure]
      · simp only [Basic]
        apply basicKV_of
        intro kv hkv
        obtain ⟨e, he, rfl⟩ := List.mem_map.mp hkv
        refine ⟨by simp [Basic], heb e ?_⟩
        split at he
        · exact (mem_sortEntries e es).mp he
        · exact he

theorem packIdx_basic : ∀ (ts : List Ty) (cx : Cx) (fx : Fx) (pre vs : List V), cx.plain → FragL ts → ConfL ts vs →
    ∃ bs, packIdx O cx fx ts (.coll .tuple (pre ++ vs)) (pre.length : Int) = .ok bs ∧ ∀ b ∈ bs, Basic b
  | [], cx, fx, pre, vs, _, _, _ => ⟨[], by rw [packIdx], by simp⟩
  | t :: ts, cx, fx, pre, vs, hp, hf, hc => by
      cases vs with
      | nil => simp [ConfL] at hc
      | cons x xs =>
        simp only [ConfL] at hc
        simp only [FragL] at hf
        obtain ⟨b, hb, hbb⟩ := pack_basic t cx fx x hp hf.1 hc.1
        obtain ⟨bs, hbs, hbsb⟩ := packIdx_basic ts cx fx (pre ++ [x]) xs hp hf.2 hc.2
        refine ⟨b :: bs, ?_, ?_⟩
        · rw [packIdx]
          have hidx : pyIndex (.coll .tuple (pre ++ x :: xs)) (pre.length : Int) = .ok x :=
            pyIndex_tuple _ _ _ (by simp)
          have hcast : ((pre ++ [x]).length : Int) = (pre.length : Int) + 1 := by simp
          rw [hcast] at hbs
          simp only [List.append_assoc, List.singleton_append] at hbs
          by_cases hcp : t.constPack = true
          · simp only [hcp, if_true, R.pure_eq, R.bind_ok, pack_const O cx fx t hcp V.none x, hb, hbs]
          · simp only [hcp, Bool.false_eq_true, if_false, pyIndexO, hidx, R.bind_ok, hb, hbs, R.pure_eq]
        · intro y hy
          cases hy with
          | head => exact hbb
          | tail _ h' => exact hbsb y h'

theorem packNT_basic : ∀ (cls : String) (fs : List (String × Ty)) (cx : Cx) (fx : Fx) (pre vs : List V),
    cx.plain → FragN fs → ConfN fs vs →
    ∃ bs, packNT O cx fx fs (.ntuple cls (pre ++ vs)) (pre.length : Int) = .ok bs ∧ ∀ b ∈ bs, Basic b.2
  | _, [], cx, fx, pre, vs, _, _, _ => ⟨[], by rw [packNT], by simp⟩
  | cls, (n, t) :: fs, cx, fx, pre, vs, hp, hf, hc => by
      cases vs with
      | nil => simp [ConfN] at hc
      | cons x xs =>
        simp only [ConfN] at hc
        simp only [FragN] at hf
        obtain ⟨b, hb, hbb⟩ := pack_basic t cx fx x hp hf.1 hc.1
        obtain ⟨bs, hbs, hbsb⟩ := packNT_basic cls fs cx fx (pre ++ [x]) xs hp hf.2 hc.2
        refine ⟨(n, b) :: bs, ?_, ?_⟩
        · rw [packNT]
          have hidx : pyIndex (.ntuple cls (pre ++ x :: xs)) (pre.length : Int) = .ok x :=
            pyIndex_ntuple _ _ _ _ (by simp)
          have hcast : ((pre ++ [x]).length : Int) = (pre.length : Int) + 1 := by simp
          rw [hcast] at hbs
          simp only [List.append_assoc, List.singleton_append] at hbs
          by_cases hcp : t.constPack = true
          · simp only [hcp, if_true, R.pure_eq, R.bind_ok, pack_const O cx fx t hcp V.none x, hb, hbs]
          · simp only [hcp, Bool.false_eq_true, if_false, pyIndexO, hidx, R.bind_ok, hb, hbs, R.pure_eq]
        · intro y hy
          cases hy with
          | head => exact hbb
          | tail _ h' => exact hbsb y h'

theorem packFields_basic : ∀ (cls : String) (cfg : Cfg) (ivs : List (String × V)) (fs : List (FieldDef × Ty)) (cx : Cx),
    cx.plain → FragF fs →
    (∀ ft ∈ fs, ∃ v, ivs.lookup ft.1.name = some v ∧ (Conf ft.2 v ∨ (v = .none ∧ ft.1.default = some .none))) →
    ∃ es, packFields O cx cls cfg fs ivs = .ok es ∧ ∀ e ∈ es, Basic e.val
  | _, _, _, [], cx, _, _, _ => ⟨[], by rw [packFields], by simp⟩
  | cls, cfg, ivs, (f, t) :: fs, cx, hp, hf, hl => by
      simp only [FragF] at hf
      obtain ⟨es, hes, heb⟩ := packFields_basic cls cfg ivs fs cx hp hf.2 (fun ft hft => hl ft (by simp [hft]))
      obtain ⟨x, hx, hcx⟩ := hl (f, t) (by simp)
      by_cases hom : f.serOmit = true
      · exact ⟨es, by rw [packFields]; simp [hom, hes], heb⟩
      · have hattr : attr ivs f.name = .ok x := by simp [attr, hx]
        by_cases hnn : (fieldCouldBeNone f t && isNone x) = true
        · -- the None branch
          rw [packFields]
          simp only [hom, hattr, R.bind_ok, hnn, hes, R.pure_eq, if_true, Bool.false_eq_true, if_false]
          split
          · exact ⟨es, rfl, heb⟩
          · refine ⟨_, rfl, ?_⟩
            intro e he
            cases he with
            | head => simp [Basic]
            | tail _ h' => exact heb e h'
        · -- the value branch: x conforms to t (a None that only matches the default is excluded by hnn)
          have hconf : Conf t x := by
            rcases hcx with h | ⟨rfl, hd⟩
            · exact h
            · exfalso; apply hnn
              have hd' : f.default = some .none := hd
              simp [fieldCouldBeNone, FieldDef.defaultIsNone, hd', isNone]
          obtain ⟨a, ha, hab⟩ := pack_basic t cx { field := f.name, holder := cls } x hp hf.1 hconf
          rw [packFields]
          simp only [hom, hattr, R.bind_ok, hnn, ha, hes, R.pure_eq, if_true, Bool.false_eq_true, if_false]
          split
          · exact ⟨es, rfl, heb⟩
          · refine ⟨_, rfl, ?_⟩
            intro e he
            cases he with
            | head => exact hab
            | tail _ h' => exact heb e h'
end

end

/-- The registry is "first match wins"; the case order of `pack` transcribes this order
    (dataclass before collections, overridden serialization first, enum after collections). -/
theorem packer_order_pinned : Mashu.Generated.packerOrder =
    ["pack_type_with_overridden_serialization", "pack_serializable_type", "pack_generic_serializable_type",
     "pack_dataclass", "pack_final", "pack_any", "pack_special_typing_primitive",
     "pack_number_and_bool_and_none", "pack_date_objects", "pack_timedelta", "pack_timezone",
     "pack_zone_info", "pack_uuid", "pack_ipaddress", "pack_decimal", "pack_fraction",
     "pack_collection", "pack_pathlike", "pack_enum", "pack_pattern"] := by decide

/-- the format dialects declare exactly these native (pass-through on serialization) types,
    and only TOML drops None -/
theorem format_dialects_pinned :
    Mashu.Generated.formatDialects.map (fun d => (d.name, d.omitNone, d.strategy.filterMap (fun s => if s.2.1 == "pass" then some s.1 else none))) =
    [("OrjsonDialect", false, ["datetime", "date", "time", "UUID"]),
     ("MessagePackDialect", false, ["bytes", "bytearray"]),
     ("TOMLDialect", true, ["datetime", "date", "time"])] := by decide

/-- non-vacuity: a depth-3 schema of the fragment and a conforming value -/
example : Frag (.dc "A" {} [({ name := "x" }, .coll .list (.opt .int)), ({ name := "y", alias := some "yy" }, .tfix [.str, .leaf .date])])
    ∧ Conf (.dc "A" {} [({ name := "x" }, .coll .list (.opt .int)), ({ name := "y", alias := some "yy" }, .tfix [.str, .leaf .date])])
        (.inst "A" [("x", .coll .list [.int 1, .none]), ("y", .coll .tuple [.str "a", .leaf .date "datetime.date(2024, 1, 1)"])]) := by
  constructor
  · simp [Frag, FragF, FragL]
  · simp [Conf, ConfF, ConfL]

end Mashu
