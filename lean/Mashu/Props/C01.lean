/-
  C01 — basic-form round trip is the identity.

  `roundtrip`: for every schema of the lossless fragment, every class configuration that
  does not drop keys, every conforming value v: unpack (pack v) = v — by structural induction
  over the type grammar (mutual with the tuple, named-tuple and dataclass field loops), for
  mixin (nailed) and codec entry points alike (`cx` is universally quantified).
  The timezone leaf's law is proved for mashumaro's own parser in Props/C01_Tz.

  Not covered by `roundtrip` (kept visible here): unions (Props/C11 gives the union theorems;
  the full statement with unions is false on the pinned code — finding K12/K10/K2, witnesses
  below), unpacked tuples (index arithmetic: `tunp_partition`), TypedDict, sort_keys /
  forbid_extra_keys configurations, named tuples with defaults.
-/
import Mashu.Lemmas.Rt
import Mashu.Props.C01_Tz
namespace Mashu

mutual
theorem hash_conf : ∀ (t : Ty) (v : V), HashTy t → Conf t v → pyHashable v = true
  | .none, v, _, hc => by simp only [Conf] at hc; subst hc; simp [pyHashable]
  | .bool, v, _, hc => by simp only [Conf] at hc; obtain ⟨_, rfl⟩ := hc; simp [pyHashable]
  | .int, v, _, hc => by simp only [Conf] at hc; obtain ⟨_, rfl⟩ := hc; simp [pyHashable]
  | .float, v, _, hc => by simp only [Conf] at hc; obtain ⟨_, rfl⟩ := hc; simp [pyHashable]
  | .str, v, _, hc => by simp only [Conf] at hc; obtain ⟨_, rfl⟩ := hc; simp [pyHashable]
  | .leaf k, v, hh, hc => by
      simp only [Conf] at hc; obtain ⟨_, rfl⟩ := hc
      simp only [HashTy] at hh
      cases k <;> simp_all [pyHashable] <;> decide
  | .enum _ _, v, _, hc => by simp only [Conf] at hc; obtain ⟨_, rfl, _⟩ := hc; simp [pyHashable]
  | .lit vals, v, hh, hc => by
      simp only [Conf] at hc; obtain ⟨cw, hm, rfl⟩ := hc
      simp only [HashTy] at hh
      have := hh cw hm
      cases h : cw.1 <;> simp_all [LitScalar, pyHashable]
  | .tfix ts, v, hh, hc => by
      simp only [Conf] at hc; obtain ⟨vs, rfl, hl⟩ := hc
      simp only [HashTy] at hh
      simp only [pyHashable]
      exact hash_confL ts vs hh hl
  | .tvar t, v, hh, hc => by
      simp only [Conf] at hc; obtain ⟨vs, rfl, hl⟩ := hc
      simp only [HashTy] at hh
      simp only [pyHashable]
      induction vs with
      | nil => simp [pyHashable.pyHashableL]
      | cons x xs ih =>
        simp only [pyHashable.pyHashableL, Bool.and_eq_true]
        exact ⟨hash_conf t x hh (hl x (by simp)), ih (fun y hy => hl y (by simp [hy]))⟩
  | .coll o _, v, hh, hc => by
      simp only [Conf] at hc; obtain ⟨vs, rfl, _⟩ := hc
      cases o <;> simp_all [HashTy, pyHashable]
  | .any, _, hh, _ => by simp [HashTy] at hh
  | .opt _, _, hh, _ => by simp [HashTy] at hh
  | .union _, _, hh, _ => by simp [HashTy] at hh
  | .map _ _ _, _, hh, _ => by simp [HashTy] at hh
  | .chain _ _, _, hh, _ => by simp [HashTy] at hh
  | .tunp _ _ _, _, hh, _ => by simp [HashTy] at hh
  | .nt _ _ _ _, _, hh, _ => by simp [HashTy] at hh
  | .td _ _ _, _, hh, _ => by simp [HashTy] at hh
  | .dc _ _ _, _, hh, _ => by simp [HashTy] at hh
theorem hash_confL : ∀ (ts : List Ty) (vs : List V), HashTyL ts → ConfL ts vs → pyHashable.pyHashableL vs = true
  | [], [], _, _ => by simp [pyHashable.pyHashableL]
  | [], _ :: _, _, hc => by simp [ConfL] at hc
  | _ :: _, [], _, hc => by simp [ConfL] at hc
  | t :: ts, v :: vs, hh, hc => by
      simp only [ConfL] at hc
      simp only [HashTyL] at hh
      simp only [pyHashable.pyHashableL, Bool.and_eq_true]
      exact ⟨hash_conf t v hh.1 hc.1, hash_confL ts vs hh.2 hc.2⟩
end


/-- The goal of the round trip at one schema node. -/
def RtGoal (O : Oracle) (cx : Cx) (fx : Fx) (S : Ty) (v : V) : Prop :=
  ∃ b, pack O cx fx S v = .ok b ∧ unpack O cx fx S b = .ok v ∧ (wnn S → isNone v = false → isNone b = false)

theorem allHash_of {vs : List V} (h : ∀ v ∈ vs, pyHashable v = true) : vs.all pyHashable = true := by
  simp only [List.all_eq_true]; exact h

theorem kvMH_rt (fk fv gk gv : V → R V) (kv : V × V)
    (hk : ∃ a, fk kv.1 = .ok a ∧ gk a = .ok kv.1) (hv : ∃ b, fv kv.2 = .ok b ∧ gv b = .ok kv.2)
    (hh : pyHashable kv.1 = true) :
    ∃ r, kvM fk fv kv = .ok r ∧ kvMH gk gv r = .ok kv := by
  obtain ⟨a, ha, ga⟩ := hk
  obtain ⟨b, hb, gb⟩ := hv
  refine ⟨(a, b), by simp only [kvM, ha, hb, R.bind_ok, R.pure_eq], ?_⟩
  simp only [kvMH, ga, gb, R.bind_ok, hh, if_true, R.pure_eq]

theorem mapM_id {α} (f : α → R α) (xs : List α) (h : ∀ x, f x = .ok x) : xs.mapM f = .ok xs := by
  induction xs with
  | nil => simp [List.mapM_nil, pure, Except.pure]
  | cons x xs ih => simp [List.mapM_cons, h x, ih, bind, Except.bind, pure, Except.pure]

theorem pack_ident_eq (O : Oracle) (cx : Cx) (fx : Fx) (hp : cx.plain) : ∀ (t : Ty) (v : V), Frag t →
    t.packIdent cx = true → pack O cx fx t v = .ok v
  | .any, v, _, _ => by rw [pack]
  | .none, v, _, _ => by rw [pack]
  | .bool, v, _, _ => by rw [pack]
  | .int, v, _, _ => by rw [pack]
  | .float, v, _, _ => by rw [pack]
  | .str, v, _, _ => by rw [pack]
  | .union _, _, hf, _ => by simp [Frag] at hf
  | .leaf _, _, _, hi => by simp [Ty.packIdent, hp.1] at hi
  | .enum _ _, _, _, hi => by simp [Ty.packIdent] at hi
  | .lit _, _, _, hi => by simp [Ty.packIdent] at hi
  | .opt t, v, hf, hi => by
      have ih := pack_ident_eq O cx fx hp t v (by simpa [Frag] using hf) (by simpa [Ty.packIdent] using hi)
      cases v with
      | none => rw [pack]
      | _ => rw [pack] <;> first | exact ih | (intro h; cases h)
  | .coll o _, _, _, hi => by cases o <;> simp [Ty.packIdent, hp.2.1] at hi
  | .map o _ _, _, _, hi => by cases o <;> simp [Ty.packIdent, hp.2.2] at hi
  | .chain _ _, _, _, hi => by simp [Ty.packIdent] at hi
  | .tvar _, _, _, hi => by simp [Ty.packIdent] at hi
  | .tfix _, _, _, hi => by simp [Ty.packIdent] at hi
  | .tunp _ _ _, _, _, hi => by simp [Ty.packIdent] at hi
  | .nt _ _ _ _, _, _, hi => by simp [Ty.packIdent] at hi
  | .td _ _ _, _, _, hi => by simp [Ty.packIdent] at hi
  | .dc _ _ _, _, _, hi => by simp [Ty.packIdent] at hi

theorem packIdent_mapM (O : Oracle) (cx : Cx) (fx : Fx) (hp : cx.plain) (t : Ty) (vs bs : List V)
    (hf : Frag t) (hi : t.packIdent cx = true) (h : vs.mapM (pack O cx fx t) = .ok bs) : bs = vs := by
  rw [mapM_id (pack O cx fx t) vs (fun x => pack_ident_eq O cx fx hp t x hf hi)] at h
  cases h; rfl

theorem packIdent_kvM (O : Oracle) (cx : Cx) (fx : Fx) (hp : cx.plain) (k t : Ty) (kvs bs : List (V × V))
    (hfk : Frag k) (hft : Frag t) (hki : k.packIdent cx = true) (hti : t.packIdent cx = true)
    (h : kvs.mapM (kvM (pack O cx fx k) (pack O cx fx t)) = .ok bs) : bs = kvs := by
  rw [mapM_id _ kvs (fun kv => by
    simp only [kvM, pack_ident_eq O cx fx hp k kv.1 hfk hki, pack_ident_eq O cx fx hp t kv.2 hft hti,
      R.bind_ok, R.pure_eq])] at h
  cases h; rfl


theorem lookupKey_of_nodup : ∀ (l : List (String × V)), (l.map (·.1)).Nodup →
    ∀ p ∈ l, lookupKey (l.map (fun p => (V.str p.1, p.2))) p.1 = some p.2
  | [], _, p, hp => by simp at hp
  | q :: l, hn, p, hp => by
      simp only [List.map_cons, List.nodup_cons] at hn
      cases hp with
      | head => simp only [List.map_cons]; exact lookupKey_cons_eq _ _ _
      | tail _ hp' =>
        simp only [List.map_cons]
        have hne : p.1 ≠ q.1 := by
          intro he
          apply hn.1
          rw [← he]
          exact List.mem_map_of_mem (f := fun x : String × V => x.1) hp'
        rw [lookupKey_cons_ne _ _ _ _ hne]
        exact lookupKey_of_nodup l hn.2 p hp'

theorem getItem_of_lookupKey (o : MapO) (kvs : List (V × V)) (n : String) (b : V)
    (h : lookupKey kvs n = some b) : pyGetItemStr (.map o kvs) n = .ok b := by
  simp only [lookupKey, Option.map_eq_some_iff] at h
  obtain ⟨kv, hf, rfl⟩ := h
  simp [pyGetItemStr, hf]

theorem pack_unpackIdent_eq (O : Oracle) (cx : Cx) (fx : Fx) : ∀ (t : Ty) (v b : V), t.unpackIdent = true →
    pack O cx fx t v = .ok b → b = v
  | .any, v, b, _, h => by rw [pack] at h; cases h; rfl
  | .opt t, v, b, hi, h => by
      simp only [Ty.unpackIdent] at hi
      by_cases hn : isNone v = true
      · have := isNone_true hn; subst this
        rw [pack] at h; cases h; rfl
      · have hn' : isNone v = false := by simpa using hn
        rw [pack_opt_ne O cx fx t v hn'] at h
        exact pack_unpackIdent_eq O cx fx t v b hi h
  | .none, _, _, hi, _ => by simp [Ty.unpackIdent] at hi
  | .bool, _, _, hi, _ => by simp [Ty.unpackIdent] at hi
  | .int, _, _, hi, _ => by simp [Ty.unpackIdent] at hi
  | .float, _, _, hi, _ => by simp [Ty.unpackIdent] at hi
  | .str, _, _, hi, _ => by simp [Ty.unpackIdent] at hi
  | .leaf _, _, _, hi, _ => by simp [Ty.unpackIdent] at hi
  | .enum _ _, _, _, hi, _ => by simp [Ty.unpackIdent] at hi
  | .lit _, _, _, hi, _ => by simp [Ty.unpackIdent] at hi
  | .union _, _, _, hi, _ => by simp [Ty.unpackIdent] at hi
  | .coll _ _, _, _, hi, _ => by simp [Ty.unpackIdent] at hi
  | .map _ _ _, _, _, hi, _ => by simp [Ty.unpackIdent] at hi
  | .chain _ _, _, _, hi, _ => by simp [Ty.unpackIdent] at hi
  | .tvar _, _, _, hi, _ => by simp [Ty.unpackIdent] at hi
  | .tfix _, _, _, hi, _ => by simp [Ty.unpackIdent] at hi
  | .tunp _ _ _, _, _, hi, _ => by simp [Ty.unpackIdent] at hi
  | .nt _ _ _ _, _, _, hi, _ => by simp [Ty.unpackIdent] at hi
  | .td _ _ _, _, _, hi, _ => by simp [Ty.unpackIdent] at hi
  | .dc _ _ _, _, _, hi, _ => by simp [Ty.unpackIdent] at hi

theorem confF_lookup_self : ∀ (fs : List (FieldDef × Ty)) (ivs : List (String × V)),
    ConfF fs ivs → (fs.map (·.1.name)).Nodup → ∀ nv ∈ ivs, ivs.lookup nv.1 = some nv.2
  | [], [], _, _, nv, h => by simp at h
  | [], _ :: _, hc, _, _, _ => by simp [ConfF] at hc
  | _ :: _, [], hc, _, _, _ => by simp [ConfF] at hc
  | (f, t) :: fs, (n, v) :: ivs, hc, hn, nv, hm => by
      simp only [ConfF] at hc
      obtain ⟨hname, _, hrest⟩ := hc
      simp only [List.map_cons, List.nodup_cons] at hn
      cases hm with
      | head => simp [List.lookup]
      | tail _ hm' =>
        have ih := confF_lookup_self fs ivs hrest hn.2 nv hm'
        have hnames : ∀ (fs : List (FieldDef × Ty)) (ivs : List (String × V)), ConfF fs ivs →
            ivs.map (·.1) = fs.map (·.1.name) := by
          intro fs
          induction fs with
          | nil => intro ivs h; cases ivs <;> simp_all [ConfF]
          | cons p fs ih' =>
            intro ivs h
            obtain ⟨f', t'⟩ := p
            cases ivs with
            | nil => simp [ConfF] at h
            | cons q ivs =>
              obtain ⟨n', v'⟩ := q
              simp only [ConfF] at h
              simp [h.1, ih' ivs h.2.2]
        have hne : nv.1 ≠ n := by
          intro he
          apply hn.1
          rw [← hname, ← he, ← hnames fs ivs hrest]
          exact List.mem_map_of_mem (f := fun x : String × V => x.1) hm'
        have hb : (nv.1 == n) = false := by simp [hne]
        simp [List.lookup, hb, ih]

theorem filter_init_all : ∀ (O : Oracle) (fs : List (FieldDef × Ty)), LosslessF O fs →
    fs.filter (fun ft => ft.1.init) = fs
  | _, [], _ => rfl
  | O, (f, t) :: fs, h => by
      simp only [LosslessF] at h
      simp [List.filter, h.2.2.1, filter_init_all O fs h.2.2.2.2]

section
variable (O : Oracle) (hR : RtLaws O)
include hR
set_option linter.unusedVariables false

mutual
theorem rt : ∀ (S : Ty) (cx : Cx) (fx : Fx) (v : V), cx.plain → Frag S → Lossless O S → Conf S v →
    RtGoal O cx fx S v
  | .any, cx, fx, v, hp, _, _, hc => ⟨v, by rw [pack], by rw [unpack], fun _ h => h⟩
  | .none, cx, fx, v, hp, _, _, hc => by
      simp only [Conf] at hc; subst hc
      exact ⟨.none, by rw [pack], by rw [unpack], fun _ h => h⟩
  | .bool, cx, fx, v, hp, _, _, hc => by
      simp only [Conf] at hc; obtain ⟨b, rfl⟩ := hc
      exact ⟨_, by rw [pack], by rw [unpack]; simp [Oracle.run, hR.bool_id], fun _ h => h⟩
  | .int, cx, fx, v, hp, _, _, hc => by
      simp only [Conf] at hc; obtain ⟨b, rfl⟩ := hc
      exact ⟨_, by rw [pack], by rw [unpack]; simp [Oracle.run, hR.int_id], fun _ h => h⟩
  | .float, cx, fx, v, hp, _, _, hc => by
      simp only [Conf] at hc; obtain ⟨b, rfl⟩ := hc
      exact ⟨_, by rw [pack], by rw [unpack]; simp [Oracle.run, hR.float_id], fun _ h => h⟩
  | .str, cx, fx, v, hp, _, _, hc => by
      simp only [Conf] at hc; obtain ⟨b, rfl⟩ := hc
      exact ⟨_, by rw [pack], by rw [unpack]; simp [Oracle.run, hR.str_id], fun _ h => h⟩
  | .leaf k, cx, fx, v, hp, _, _, hc => by
      simp only [Conf] at hc; obtain ⟨c, rfl⟩ := hc
      obtain ⟨b, hb, hpr⟩ := hR.print_ok k c
      refine ⟨b, by rw [pack]; simp [hp.1, Oracle.run, hb], ?_, fun _ _ => printed_isNone hpr⟩
      rw [unpack]; simp [Oracle.run, hR.leaf_rt k c b hb]
  | .enum cls ms, cx, fx, v, hp, hf, hl, hc => by
      simp only [Conf] at hc; obtain ⟨m, rfl, hm⟩ := hc
      obtain ⟨x, hx⟩ := Option.isSome_iff_exists.mp hm
      simp only [Lossless] at hl
      obtain ⟨hxs, hfind⟩ := hl m x hx
      refine ⟨x, by rw [pack]; simp [hx], ?_, ?_⟩
      · rw [unpack]
        cases x <;> simp_all [unpackEnum, BasicScalar]
      · intro hw _
        simp only [wnn] at hw
        exact isNone_false_of_ne (hw (m, x) (lookup_mem ms m x hx))
  | .lit vals, cx, fx, v, hp, hf, hl, hc => by
      simp only [Conf] at hc; obtain ⟨cw, hmem, rfl⟩ := hc
      simp only [Lossless] at hl
      obtain ⟨hsc, hrefl, hun⟩ := hl cw hmem
      have hex : ∃ cw', vals.find? (fun c => O.eq cw.1 c.1) = some cw' := by
        rcases hfind : vals.find? (fun c => O.eq cw.1 c.1) with _ | cw'
        · rw [List.find?_eq_none] at hfind
          have := hfind cw hmem
          simp [hrefl] at this
        · exact ⟨cw', hfind⟩
      obtain ⟨cw', hfind⟩ := hex
      have hsc' : LitScalar cw'.1 := (hl cw' (List.mem_of_find?_eq_some hfind)).1
      refine ⟨cw.1, ?_, ?_, fun _ h => h⟩
      · rw [pack]; simp only [hfind]
        cases h1 : cw'.1 <;> simp_all [LitScalar]
      · rw [unpack]; simp [hun]
  | .opt t, cx, fx, v, hp, hf, hl, hc => by
      simp only [Conf] at hc
      simp only [Lossless] at hl
      simp only [Frag] at hf
      by_cases hn : isNone v = true
      · have := isNone_true hn; subst this
        exact ⟨.none, by rw [pack], by rw [unpack], fun _ h => h⟩
      · have hn' : isNone v = false := by simpa using hn
        have hc' : Conf t v := by
          rcases hc with rfl | h
          · simp [isNone] at hn
          · exact h
        obtain ⟨b, hb, hu, hw⟩ := rt t cx fx v hp hf hl.1 hc'
        have hbn : isNone b = false := hw hl.2 hn'
        exact ⟨b, by rw [pack_opt_ne O cx fx t v hn']; exact hb,
          by rw [unpack_opt_ne O cx fx t b hbn]; exact hu, fun _ _ => hbn⟩
  | .union ts, cx, fx, v, hp, hf, _, _ => by simp [Frag] at hf
  | .coll o t, cx, fx, v, hp, hf, hl, hc => by
      simp only [Frag] at hf
      simp only [Lossless] at hl
      simp only [Conf] at hc
      obtain ⟨vs, rfl, hall⟩ := hc
      obtain ⟨bs, hbs, hgs⟩ := mapM_rt (pack O cx fx t) (unpack O cx fx t) vs
        (fun x hx => by
          obtain ⟨b, hb, hu, _⟩ := rt t cx fx x hp hf.2 hl.2 (hall x hx)
          exact ⟨b, hb, hu⟩)
      have hit : pyIterO O (.coll .list bs) = .ok bs := by simp [pyIterO, pyIter]
      have hpk : pack O cx fx (.coll o t) (.coll o vs) = .ok (.coll .list bs) := by
        rw [pack]
        by_cases hid : (o == .list && t.packIdent cx) = true
        · -- identity elements: `value.copy()`; the packed elements are the elements
          simp only [Bool.and_eq_true, beq_iff_eq] at hid
          obtain ⟨rfl, hti⟩ := hid
          have hbs' : bs = vs := packIdent_mapM O cx fx hp t vs bs hf.2 hti hbs
          simp [hti, hp.2.1, pyCopy, hbs']
        · have hit' : pyIterO O (.coll o vs) = .ok vs := by
            rcases hl.1 with rfl | rfl | ⟨rfl | rfl, _⟩ <;> simp [pyIterO, pyIter]
          simp only [hid, hit', R.bind_ok, hbs, R.pure_eq]
          simp
      refine ⟨.coll .list bs, hpk, ?_, fun _ _ => by simp [isNone]⟩
      rw [unpack]
      simp only [hit, R.bind_ok, hgs]
      rcases hl.1 with rfl | rfl | ⟨rfl | rfl, hh⟩
      · simp [finishColl]
      · simp [finishColl]
      · have : vs.all pyHashable = true := allHash_of (fun x hx => hash_conf t x hh (hall x hx))
        simp [finishColl, this]
      · have : vs.all pyHashable = true := allHash_of (fun x hx => hash_conf t x hh (hall x hx))
        simp [finishColl, this]
  | .map o k t, cx, fx, v, hp, hf, hl, hc => by
      simp only [Frag] at hf
      simp only [Lossless] at hl
      simp only [Conf] at hc
      obtain ⟨kvs, rfl, hall⟩ := hc
      obtain ⟨hlk, hlt, hhk, hcnt, hdd⟩ := hl
      obtain ⟨bs, hbs, hgs⟩ := mapM_rt
        (kvM (pack O cx fx k) (if o == .counter then pure else pack O cx fx t))
        (kvMH (unpack O cx fx k) (if o == .counter then O.run .int else unpack O cx fx t)) kvs
        (fun kv hkv => by
          apply kvMH_rt
          · obtain ⟨a, ha, hu, _⟩ := rt k cx fx kv.1 hp hf.1 hlk (hall kv hkv).1
            exact ⟨a, ha, hu⟩
          · by_cases hc' : (o == .counter) = true
            · have : t = .int := hcnt (by simpa using hc')
              subst this
              obtain ⟨i, hi⟩ := (by simpa only [Conf] using (hall kv hkv).2 : ∃ i, kv.2 = .int i)
              exact ⟨kv.2, by simp only [hc', if_true, R.pure_eq], by simp [hc', hi, Oracle.run, hR.int_id]⟩
            · simp only [hc']
              obtain ⟨b, hb, hu, _⟩ := rt t cx fx kv.2 hp hf.2.1 hlt (hall kv hkv).2
              exact ⟨b, hb, hu⟩
          · exact hash_conf k kv.1 hhk (hall kv hkv).1)
      have hpk : pack O cx fx (.map o k t) (.map o kvs) = .ok (.map .dict bs) := by
        rw [pack]
        by_cases hid : (o == .dict && k.packIdent cx && t.packIdent cx) = true
        · simp only [Bool.and_eq_true, beq_iff_eq] at hid
          obtain ⟨⟨rfl, hki⟩, hti⟩ := hid
          have hbs' : bs = kvs := packIdent_kvM O cx fx hp k t kvs bs hf.1 hf.2.1 hki hti (by simpa using hbs)
          simp [hki, hti, hp.2.2, pyCopy, hbs']
        · simp only [hid, pyItems, R.bind_ok, hbs, R.pure_eq]
          simp
      refine ⟨.map .dict bs, hpk, ?_, fun _ _ => by simp [isNone]⟩
      rw [unpack]
      simp only [pyItems, R.bind_ok, hgs, R.pure_eq]
  | .chain k t, cx, fx, v, hp, hf, hl, hc => by
      simp only [Frag] at hf
      simp only [Lossless] at hl
      simp only [Conf] at hc
      obtain ⟨ms, rfl, hall⟩ := hc
      obtain ⟨hlk, hlt, hhk⟩ := hl
      obtain ⟨bs, hbs, hgs⟩ := mapM_rt
        (itemsM (kvM (pack O cx fx k) (pack O cx fx t)))
        (itemsM (kvMH (unpack O cx fx k) (unpack O cx fx t))) ms
        (fun m hm => by
          obtain ⟨kvs, rfl, hkv⟩ := hall m hm
          obtain ⟨r, hr, hg⟩ := mapM_rt (kvM (pack O cx fx k) (pack O cx fx t))
            (kvMH (unpack O cx fx k) (unpack O cx fx t)) kvs
            (fun kv hkv' => by
              apply kvMH_rt
              · obtain ⟨a, ha, hu, _⟩ := rt k cx fx kv.1 hp hf.1 hlk (hkv kv hkv').1
                exact ⟨a, ha, hu⟩
              · obtain ⟨b, hb, hu, _⟩ := rt t cx fx kv.2 hp hf.2 hlt (hkv kv hkv').2
                exact ⟨b, hb, hu⟩
              · exact hash_conf k kv.1 hhk (hkv kv hkv').1)
          exact ⟨.map .dict r, by simp only [itemsM, pyItems, R.bind_ok, hr, R.pure_eq],
            by simp only [itemsM, pyItems, R.bind_ok, hg, R.pure_eq]⟩)
      refine ⟨.coll .list bs, ?_, ?_, fun _ _ => by simp [isNone]⟩
      · rw [pack]; simp only [R.bind_ok, hbs, R.pure_eq]
      · rw [unpack]
        have hit : pyIterO O (.coll .list bs) = .ok bs := by simp [pyIterO, pyIter]
        simp only [hit, R.bind_ok, hgs, R.pure_eq]
  | .tvar t, cx, fx, v, hp, hf, hl, hc => by
      simp only [Frag] at hf
      simp only [Lossless] at hl
      simp only [Conf] at hc
      obtain ⟨vs, rfl, hall⟩ := hc
      obtain ⟨bs, hbs, hgs⟩ := mapM_rt (pack O cx fx t) (unpack O cx fx t) vs
        (fun x hx => by
          obtain ⟨b, hb, hu, _⟩ := rt t cx fx x hp hf hl (hall x hx)
          exact ⟨b, hb, hu⟩)
      refine ⟨.coll .list bs, ?_, ?_, fun _ _ => by simp [isNone]⟩
      · rw [pack]; simp only [pyIterO, pyIter, R.bind_ok, hbs, R.pure_eq]
      · rw [unpack]; simp only [pyIterO, pyIter, R.bind_ok, hgs, R.pure_eq]
  | .tfix ts, cx, fx, v, hp, hf, hl, hc => by
      simp only [Frag] at hf
      simp only [Lossless] at hl
      simp only [Conf] at hc
      obtain ⟨vs, rfl, hall⟩ := hc
      obtain ⟨bs, hlen, hbs, hgs⟩ := rtIdx ts cx fx vs hp hf hl hall
      refine ⟨.coll .list bs, ?_, ?_, fun _ _ => by simp [isNone]⟩
      · rw [pack]
        have := hbs .tuple [] (by simp)
        simp at this
        simp only [this, R.bind_ok, R.pure_eq]
      · rw [unpack]
        have := hgs .list [] (by simp)
        simp at this
        simp only [this, R.bind_ok, R.pure_eq]
  | .tunp _ _ _, cx, fx, v, hp, hf, _, _ => by simp [Frag] at hf
  | .nt cls fs defs asD, cx, fx, v, hp, hf, hl, hc => by
      simp only [Frag] at hf
      simp only [Lossless] at hl
      simp only [Conf] at hc
      obtain ⟨vs, rfl, hall⟩ := hc
      obtain ⟨hln, rfl, hnd⟩ := hl
      obtain ⟨bs, hnames, hbs, hlist, hdict⟩ := rtNT cls fs cx fx vs hp hf hln hall
      have hbs0 := hbs []
      simp at hbs0
      by_cases hd : (asD.getD cx.ntAsDict) = true
      · refine ⟨.map .dict (bs.map (fun nv => (V.str nv.1, nv.2))), ?_, ?_, fun _ _ => by simp [isNone]⟩
        · rw [pack]; simp only [hbs0, R.bind_ok, hd, if_true, R.pure_eq]
        · rw [unpack]
          have hnd' : (bs.map (·.1)).Nodup := by rw [hnames]; exact hnd
          have := hdict (bs.map (fun nv => (V.str nv.1, nv.2))) 0 (lookupKey_of_nodup bs hnd')
          simp only [hd, List.isEmpty_nil, if_true, this, R.bind_ok, R.pure_eq]
      · refine ⟨.coll .list (bs.map (·.2)), ?_, ?_, fun _ _ => by simp [isNone]⟩
        · rw [pack]; simp only [hbs0, R.bind_ok, hd, R.pure_eq]; simp
        · rw [unpack]
          have := hlist []
          simp at this
          simp only [hd, List.isEmpty_nil, if_true, this, R.bind_ok, R.pure_eq]
  | .td _ _ _, cx, fx, v, hp, hf, _, _ => by simp [Frag] at hf
  | .dc cls cfg fs, cx, fx, v, hp, hf, hl, hc => by
      simp only [Frag] at hf
      simp only [Lossless] at hl
      simp only [Conf] at hc
      obtain ⟨ivs, rfl, hall⟩ := hc
      obtain ⟨hlf, hnd, hkd, hon, hod, han, hfe, hsk, hal⟩ := hl
      have hself := confF_lookup_self fs ivs hall hnd
      obtain ⟨es, hes, hkeys, hback⟩ := rtFields fs cls cfg ivs { cx with ntAsDict := cfg.ntAsDict } ivs hp hf.1 hlf hall hself hon hod han hal
      have hknd : ((es.map (fun e => (e.key, e.val))).map (·.1)).Nodup := by
        simp only [List.map_map]
        have : (es.map ((fun x : String × V => x.1) ∘ fun e => (e.key, e.val))) = es.map (·.key) := by
          apply List.map_congr_left; intro e _; rfl
        rw [this, hkeys]; exact hkd
      have hlook : ∀ e ∈ es, lookupKey (es.map (fun e => (V.str e.key, e.val))) e.key = some e.val := by
        intro e he
        have := lookupKey_of_nodup (es.map (fun e => (e.key, e.val))) hknd (e.key, e.val)
          (List.mem_map_of_mem (f := fun e : Entry => (e.key, e.val)) he)
        simpa only [List.map_map, Function.comp_def] using this
      refine ⟨.map .dict (es.map (fun e => (V.str e.key, e.val))), ?_, ?_, fun _ _ => by simp [isNone]⟩
      · rw [pack]; simp [hes, hsk]
      · rw [unpack]
        simp only [fromDict, filter_init_all O fs hlf]
        simp only [hfe, Bool.false_and, hback _ hlook, R.bind_ok, R.pure_eq, buildInst]
        simp

/-- fixed tuples: element i of the packed list is the packed element i, and back -/
theorem rtIdx : ∀ (ts : List Ty) (cx : Cx) (fx : Fx) (vs : List V), cx.plain → FragL ts → LosslessL O ts → ConfL ts vs →
    ∃ bs, bs.length = vs.length ∧
      (∀ (o : CollO) (pre : List V), (o = .tuple ∨ o = .list) →
        packIdx O cx fx ts (.coll o (pre ++ vs)) (pre.length : Int) = .ok bs) ∧
      (∀ (o : CollO) (pre : List V), (o = .tuple ∨ o = .list) →
        unpackIdx O cx fx ts (.coll o (pre ++ bs)) (pre.length : Int) = .ok vs)
  | [], cx, fx, vs, _, _, _, hc => by
      cases vs with
      | nil => exact ⟨[], rfl, fun _ _ _ => by rw [packIdx], fun _ _ _ => by rw [unpackIdx]⟩
      | cons _ _ => simp [ConfL] at hc
  | t :: ts, cx, fx, vs, hp, hf, hl, hc => by
      cases vs with
      | nil => simp [ConfL] at hc
      | cons x xs =>
        simp only [ConfL] at hc
        simp only [FragL] at hf
        simp only [LosslessL] at hl
        obtain ⟨b, hb, hu, _⟩ := rt t cx fx x hp hf.1 hl.1 hc.1
        obtain ⟨bs, hlen, hbs, hgs⟩ := rtIdx ts cx fx xs hp hf.2 hl.2 hc.2
        refine ⟨b :: bs, by simp [hlen], ?_, ?_⟩
        · intro o pre ho
          rw [packIdx]
          have hidx : pyIndex (.coll o (pre ++ x :: xs)) (pre.length : Int) = .ok x := by
            apply pyIndex_seq _ (pre ++ x :: xs) _ _ _ _ (by simp)
            · rcases ho with rfl | rfl <;> simp [pySeq]
            · intro o' kvs h; cases h
          have h2 := hbs o (pre ++ [x]) ho
          have hcast : ((pre ++ [x]).length : Int) = (pre.length : Int) + 1 := by simp
          rw [hcast] at h2
          simp only [List.append_assoc, List.singleton_append] at h2
          by_cases hcp : t.constPack = true
          · simp only [hcp, if_true, R.pure_eq, R.bind_ok, pack_const O cx fx t hcp V.none x, hb, h2]
          · simp only [hcp, Bool.false_eq_true, if_false, pyIndexO, hidx, R.bind_ok, hb, h2, R.pure_eq]
        · intro o pre ho
          rw [unpackIdx]
          have hidx : pyIndex (.coll o (pre ++ b :: bs)) (pre.length : Int) = .ok b := by
            apply pyIndex_seq _ (pre ++ b :: bs) _ _ _ _ (by simp)
            · rcases ho with rfl | rfl <;> simp [pySeq]
            · intro o' kvs h; cases h
          have h2 := hgs o (pre ++ [b]) ho
          have hcast : ((pre ++ [b]).length : Int) = (pre.length : Int) + 1 := by simp
          rw [hcast] at h2
          simp only [List.append_assoc, List.singleton_append] at h2
          by_cases hcp : t.constUnpack = true
          · simp only [hcp, if_true, R.pure_eq, R.bind_ok, unpack_const O cx fx t hcp V.none b, hu, h2]
          · simp only [hcp, Bool.false_eq_true, if_false, pyIndexO, hidx, R.bind_ok, hu, h2, R.pure_eq]

/-- named tuples: list form by index, dict form by field name -/
theorem rtNT : ∀ (cls : String) (fs : List (String × Ty)) (cx : Cx) (fx : Fx) (vs : List V), cx.plain → FragN fs →
    LosslessN O fs → ConfN fs vs →
    ∃ bs : List (String × V), bs.map (·.1) = fs.map (·.1) ∧
      (∀ (pre : List V), packNT O cx fx fs (.ntuple cls (pre ++ vs)) (pre.length : Int) = .ok bs) ∧
      (∀ (pre : List V), unpackNT O cx fx fs (.coll .list (pre ++ bs.map (·.2))) (pre.length : Int) false = .ok vs) ∧
      (∀ (kvs : List (V × V)) (i : Int), (∀ nb ∈ bs, lookupKey kvs nb.1 = some nb.2) →
        unpackNT O cx fx fs (.map .dict kvs) i true = .ok vs)
  | cls, [], cx, fx, vs, _, _, _, hc => by
      cases vs with
      | nil => exact ⟨[], rfl, fun _ => by rw [packNT], fun _ => by rw [unpackNT], fun _ _ _ => by rw [unpackNT]⟩
      | cons _ _ => simp [ConfN] at hc
  | cls, (n, t) :: fs, cx, fx, vs, hp, hf, hl, hc => by
      cases vs with
      | nil => simp [ConfN] at hc
      | cons x xs =>
        simp only [ConfN] at hc
        simp only [FragN] at hf
        simp only [LosslessN] at hl
        obtain ⟨b, hb, hu, _⟩ := rt t cx fx x hp hf.1 hl.1 hc.1
        obtain ⟨bs, hnames, hbs, hlist, hdict⟩ := rtNT cls fs cx fx xs hp hf.2 hl.2 hc.2
        refine ⟨(n, b) :: bs, by simp [hnames], ?_, ?_, ?_⟩
        · intro pre
          rw [packNT]
          have hidx : pyIndex (.ntuple cls (pre ++ x :: xs)) (pre.length : Int) = .ok x := by
            apply pyIndex_seq _ (pre ++ x :: xs) _ _ _ _ (by simp)
            · simp [pySeq]
            · intro o' kvs h; cases h
          have h2 := hbs (pre ++ [x])
          have hcast : ((pre ++ [x]).length : Int) = (pre.length : Int) + 1 := by simp
          rw [hcast] at h2
          simp only [List.append_assoc, List.singleton_append] at h2
          by_cases hcp : t.constPack = true
          · simp only [hcp, if_true, R.pure_eq, R.bind_ok, pack_const O cx fx t hcp V.none x, hb, h2]
          · simp only [hcp, Bool.false_eq_true, if_false, pyIndexO, hidx, R.bind_ok, hb, h2, R.pure_eq]
        · intro pre
          rw [unpackNT]
          have hidx : pyIndex (.coll .list (pre ++ b :: bs.map (·.2))) (pre.length : Int) = .ok b := by
            apply pyIndex_seq _ (pre ++ b :: bs.map (·.2)) _ _ _ _ (by simp)
            · simp [pySeq]
            · intro o' kvs h; cases h
          have h2 := hlist (pre ++ [b])
          have hcast : ((pre ++ [b]).length : Int) = (pre.length : Int) + 1 := by simp
          rw [hcast] at h2
          simp only [List.append_assoc, List.singleton_append] at h2
          simp only [List.map_cons]
          by_cases hcp : t.constUnpack = true
          · simp only [hcp, if_true, R.pure_eq, R.bind_ok, unpack_const O cx fx t hcp V.none b, hu, h2]
          · simp only [hcp, Bool.false_eq_true, if_false, pyIndexO, hidx, R.bind_ok, hu, h2, R.pure_eq]
        · intro kvs i hlook
          rw [unpackNT]
          have hget := getItem_of_lookupKey .dict kvs n b (hlook (n, b) (by simp))
          have h2 := hdict kvs (i + 1) (fun nb hnb => hlook nb (by simp [hnb]))
          by_cases hcp : t.constUnpack = true
          · simp only [hcp, if_true, R.pure_eq, R.bind_ok, unpack_const O cx fx t hcp V.none b, hu, h2]
          · simp only [hcp, Bool.false_eq_true, if_false, if_true, hget, R.bind_ok, hu, h2, R.pure_eq]

/-- the dataclass field loops: every field is written under its output key and read back
    from exactly that key -/
theorem rtFields : ∀ (fs : List (FieldDef × Ty)) (cls : String) (cfg : Cfg) (ivs : List (String × V)) (cx : Cx)
    (sub : List (String × V)), cx.plain → FragF fs → LosslessF O fs → ConfF fs sub →
    (∀ nv ∈ sub, ivs.lookup nv.1 = some nv.2) →
    cfg.omitNone = false → cfg.omitDefault = false → cfg.allowNotByAlias = false →
    (cfg.serializeByAlias = true ∨ ∀ ft ∈ fs, ft.1.alias = none) →
    ∃ es, packFields O cx cls cfg fs ivs = .ok es ∧ es.map (·.key) = fs.map (fun ft => outKey cfg ft.1) ∧
      ∀ kvs, (∀ e ∈ es, lookupKey kvs e.key = some e.val) → unpackFields O cx cls cfg fs kvs = .ok sub
  | [], cls, cfg, ivs, cx, sub, _, _, _, hc, _, _, _, _, _ => by
      cases sub with
      | nil => exact ⟨[], by rw [packFields], rfl, fun _ _ => by rw [unpackFields]⟩
      | cons _ _ => simp [ConfF] at hc
  | (f, t) :: fs, cls, cfg, ivs, cx, sub, hp, hf, hl, hc, hsub, hon, hod, han, hal => by
      cases sub with
      | nil => simp [ConfF] at hc
      | cons nv sub' =>
        obtain ⟨n, v⟩ := nv
        simp only [ConfF] at hc
        obtain ⟨hname, hcv, hrest⟩ := hc
        subst hname
        simp only [FragF] at hf
        simp only [LosslessF] at hl
        obtain ⟨hlt, hwnn, hinit, hso, hlrest⟩ := hl
        have hal' : cfg.serializeByAlias = true ∨ ∀ ft ∈ fs, ft.1.alias = none := by
          rcases hal with h | h
          · exact Or.inl h
          · exact Or.inr (fun ft hft => h ft (by simp [hft]))
        obtain ⟨es, hes, hkeys, hback⟩ := rtFields fs cls cfg ivs cx sub' hp hf.2 hlrest hrest
          (fun nv hnv => hsub nv (by simp [hnv])) hon hod han hal'
        have hattr : attr ivs f.name = .ok v := by
          have := hsub (f.name, v) (by simp)
          simp [attr, this]
        -- the key read back is the key written
        have hfound : ∀ kvs : List (V × V), findKey cfg f kvs = lookupKey kvs (outKey cfg f) := by
          intro kvs
          cases ha : f.alias with
          | none => simp [findKey, outKey, ha]
          | some a =>
            rcases hal with h | h
            · simp [findKey, outKey, ha, h, han]
            · have := h (f, t) (by simp)
              simp [ha] at this
        by_cases hnn : (fieldCouldBeNone f t && isNone v) = true
        · -- None stored for a nullable field
          have hvn : v = .none := isNone_true (by simp only [Bool.and_eq_true] at hnn; exact hnn.2)
          subst hvn
          refine ⟨{ name := f.name, key := outKey cfg f, val := .none } :: es, ?_, by simp [hkeys], ?_⟩
          · rw [packFields]
            simp only [hso, hattr, R.bind_ok, hnn, hes, R.pure_eq, hon, hod, outKey]
            simp
          · intro kvs hlook
            rw [unpackFields]
            have h1 := hlook { name := f.name, key := outKey cfg f, val := .none } (by simp)
            simp only [hinit, hfound kvs, h1]
            by_cases hui : t.unpackIdent = true
            · simp [hui, hback kvs (fun e he => hlook e (by simp [he]))]
            · simp [hui, hnn, hback kvs (fun e he => hlook e (by simp [he]))]
        · have hconf : Conf t v := by
            rcases hcv with h | ⟨rfl, hd⟩
            · exact h
            · exfalso; apply hnn
              simp [fieldCouldBeNone, FieldDef.defaultIsNone, hd, isNone]
          obtain ⟨b, hb, hu, hw⟩ := rt t cx { field := f.name, holder := cls } v hp hf.1 hlt hconf
          refine ⟨{ name := f.name, key := outKey cfg f, val := b } :: es, ?_, by simp [hkeys], ?_⟩
          · rw [packFields]
            simp only [hso, hattr, R.bind_ok, hnn, hb, hes, R.pure_eq, hod, outKey]
            simp
          · intro kvs hlook
            rw [unpackFields]
            have h1 := hlook { name := f.name, key := outKey cfg f, val := b } (by simp)
            simp only [hinit, hfound kvs, h1]
            have hrest' := hback kvs (fun e he => hlook e (by simp [he]))
            by_cases hui : t.unpackIdent = true
            · have := pack_unpackIdent_eq O cx { field := f.name, holder := cls } t v b hui hb
              subst this
              simp [hui, hrest']
            · have hcb : (fieldCouldBeNone f t && isNone b) = false := by
                by_cases hcn : fieldCouldBeNone f t = true
                · have hvn : isNone v = false := by
                    simp only [hcn, Bool.true_and] at hnn; simpa using hnn
                  simp [hw hwnn hvn]
                · simp [hcn]
              simp [hui, hcb, hu, hrest']
end

end

/-- **C01** (fragment): `decode(encode(v)) = v` for every lossless schema of the fragment, every
    conforming value, mixin and codec entry points (`cx.nailed` arbitrary), any nesting depth. -/
theorem roundtrip (O : Oracle) (hR : RtLaws O) (S : Ty) (cx : Cx) (fx : Fx) (v : V)
    (hp : cx.plain) (hf : Frag S) (hl : Lossless O S) (hc : Conf S v) :
    ∃ b, pack O cx fx S v = .ok b ∧ unpack O cx fx S b = .ok v := by
  obtain ⟨b, h1, h2, _⟩ := rt O hR S cx fx v hp hf hl hc
  exact ⟨b, h1, h2⟩

/-- corollary for dataclasses through the mixin: `from_dict(x.to_dict()) == x` -/
theorem roundtrip_dc (O : Oracle) (hR : RtLaws O) (cls : String) (cfg : Cfg) (fs : List (FieldDef × Ty))
    (ivs : List (String × V)) (hf : Frag (.dc cls cfg fs)) (hl : Lossless O (.dc cls cfg fs))
    (hc : Conf (.dc cls cfg fs) (.inst cls ivs)) :
    ∃ d, pack O { nailed := true } {} (.dc cls cfg fs) (.inst cls ivs) = .ok d
      ∧ unpack O { nailed := true } {} (.dc cls cfg fs) d = .ok (.inst cls ivs) :=
  roundtrip O hR _ _ _ _ ⟨rfl, rfl, rfl⟩ hf hl hc

/-- The full statement (with unions) is false of the model, hence — through the correspondence —
    of the pinned implementation: `Union[List[int], Dict[str, int]]`, value `{"1": 2}` comes
    back as `[1]` (finding K12: sequence unpackers accept mappings). -/
def demoOracle : Oracle where
  call := fun op v => match op, v with
    | .int, .int i => .ok (.int i)
    | .int, .str "1" => .ok (.int 1)
    | .str, .str s => .ok (.str s)
    | _, _ => .error .valueError
  eq := fun a b => a == b

def okIs (r : R V) (v : V) : Bool :=
  match r with
  | .ok x => x == v
  | .error _ => false

theorem roundtrip_union_counterexample :
    okIs (do let b ← pack demoOracle {} {} (.union [.coll .list .int, .map .dict .str .int]) (.map .dict [(.str "1", .int 2)])
             unpack demoOracle {} {} (.union [.coll .list .int, .map .dict .str .int]) b)
      (.coll .list [.int 1]) = true := by
  decide +kernel

/-- non-vacuity: a schema of the fragment with aliases, Optional, tuple, mapping, enum and a
    nested dataclass satisfies the hypotheses of `roundtrip` -/
example : Frag (.dc "A" { serializeByAlias := true }
      [({ name := "x", alias := some "it's" }, .opt (.coll .list .int)),
       ({ name := "y" }, .map .dict .str (.tfix [.str, .leaf .date]))]) := by
  simp [Frag, FragF, FragL]

example : Lossless demoOracle (.dc "A" { serializeByAlias := true }
      [({ name := "x", alias := some "it's" }, .opt (.coll .list .int)),
       ({ name := "y" }, .map .dict .str (.tfix [.str, .leaf .date]))]) := by
  simp [Lossless, LosslessF, LosslessL, wnn, HashTy, outKey]

end Mashu
