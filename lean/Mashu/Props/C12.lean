/-
  C12 — discriminated unions pick exactly the tagged class in any definition order.

  `decode_correct`: for EVERY history of `define` / `decode` events (classes defined before or
  after the first call, any interleaving, any length), provided tags are unique, every decode
  event of the implementation's state machine (variants map, refill on miss by walking all
  subclasses, retry) returns the eligible class tagged t among the classes defined SO FAR, or
  the documented error — by induction over the event list with the invariant `RegInv`
  (every variants-map entry points to a defined, eligible class carrying that tag).
-/
import Mashu.Discr
namespace Mashu.Discr

theorem findCls_append (cs : List Cls) (c x : Cls) (i : Nat) (h : findCls cs i = some x) :
    findCls (cs ++ [c]) i = some x := by
  simp only [findCls] at h ⊢
  simp [List.find?_append, h]

theorem isDesc_mono (cs : List Cls) (c : Cls) (root : Nat) : ∀ (f i : Nat),
    isDesc cs root f i = true → isDesc (cs ++ [c]) root (f + 1) i = true
  | 0, _, h => by simp [isDesc] at h
  | f + 1, i, h => by
      rw [isDesc] at h
      rw [isDesc]
      cases hf : findCls cs i with
      | none => simp [hf] at h
      | some x =>
        rw [findCls_append cs c x i hf]
        simp only [hf] at h
        cases hp : x.parent with
        | none => simp [hp] at h
        | some p =>
          simp only [hp] at h ⊢
          simp only [Bool.or_eq_true] at h ⊢
          rcases h with h | h
          · exact Or.inl h
          · exact Or.inr (isDesc_mono cs c root f p h)

theorem isDesc_fuel (cs : List Cls) (root : Nat) : ∀ (f i : Nat), isDesc cs root f i = true → isDesc cs root (f + 1) i = true
  | 0, _, h => by simp [isDesc] at h
  | f + 1, i, h => by
      rw [isDesc] at h
      rw [isDesc]
      cases hf : findCls cs i with
      | none => simp [hf] at h
      | some x =>
        simp only [hf] at h ⊢
        cases hp : x.parent with
        | none => simp [hp] at h
        | some p =>
          simp only [hp] at h ⊢
          simp only [Bool.or_eq_true] at h ⊢
          rcases h with h | h
          · exact Or.inl h
          · exact Or.inr (isDesc_fuel cs root f p h)

/-- a class that is eligible stays eligible when further classes are defined -/
theorem eligible_mono (cs : List Cls) (c : Cls) (root : Nat) (sup : Mode) (x : Cls)
    (h : x ∈ eligible cs root sup) : x ∈ eligible (cs ++ [c]) root sup := by
  simp only [eligible, List.mem_filter, Bool.or_eq_true, Bool.and_eq_true] at h ⊢
  refine ⟨List.mem_append_left _ h.1, ?_⟩
  rcases h.2 with h2 | h2
  · left
    have := isDesc_mono cs c root cs.length x.id h2.2
    exact ⟨h2.1, by simpa using this⟩
  · exact Or.inr h2

/-- every entry of a variants map points to a defined, eligible class carrying that tag -/
def RegInv (sup : Mode) (st : State) : Prop :=
  ∀ e ∈ st.registry, ∃ cl ∈ eligible st.classes e.1 sup, cl.id = e.2.2 ∧ cl.tag = some e.2.1

/-- "the unique eligible class whose tag is t": for every root, no two eligible classes of the
    whole history carry the same tag -/
def UniqueTags (sup : Mode) (cs : List Cls) : Prop :=
  ∀ root, ∀ a ∈ eligible cs root sup, ∀ b ∈ eligible cs root sup, ∀ t, a.tag = some t → b.tag = some t → a = b

theorem eligible_sub (cs : List Cls) (root : Nat) (sup : Mode) (x : Cls) (h : x ∈ eligible cs root sup) : x ∈ cs :=
  (List.mem_filter.mp h).1

theorem lookup_some_mem (reg : List (Nat × String × Nat)) (root : Nat) (t : String) (c : Nat)
    (h : lookup reg root t = some c) : (root, t, c) ∈ reg := by
  simp only [lookup, Option.map_eq_some_iff] at h
  obtain ⟨e, hf, rfl⟩ := h
  have hm := List.mem_of_find?_eq_some hf
  have hp := List.find?_some hf
  simp only [Bool.and_eq_true, beq_iff_eq] at hp
  obtain ⟨e1, e2, e3⟩ := e
  simp only at hp
  obtain ⟨rfl, rfl⟩ := hp
  exact hm

theorem lookup_none_not_mem (reg : List (Nat × String × Nat)) (root : Nat) (t : String)
    (h : lookup reg root t = none) : ∀ c, (root, t, c) ∉ reg := by
  intro c hm
  simp only [lookup, Option.map_eq_none_iff, List.find?_eq_none] at h
  have := h (root, t, c) hm
  simp at this

/-- one decode step agrees with the statement -/
theorem step_decode_correct (sup : Mode) (st : State) (root : Nat) (t : Option String)
    (hinv : RegInv sup st) (hu : UniqueTags sup st.classes) :
    (step sup st (.decode root t)).2 = some (spec st.classes root sup t)
      ∧ RegInv sup (step sup st (.decode root t)).1
      ∧ (step sup st (.decode root t)).1.classes = st.classes := by
  cases t with
  | none => exact ⟨rfl, hinv, rfl⟩
  | some t =>
    simp only [step]
    -- what the statement says
    have hspec : ∀ cl ∈ eligible st.classes root sup, cl.tag = some t → spec st.classes root sup (some t) = .inst cl.id := by
      intro cl hcl htag
      simp only [spec]
      cases hf : (eligible st.classes root sup).find? (fun c => c.tag == some t) with
      | none =>
        rw [List.find?_eq_none] at hf
        have := hf cl hcl
        simp [htag] at this
      | some cl' =>
        have hm := List.mem_of_find?_eq_some hf
        have hp := List.find?_some hf
        have htag' : cl'.tag = some t := by simpa using hp
        have := hu root cl' hm cl hcl t htag' htag
        subst this; rfl
    cases hl : lookup st.registry root t with
    | some c =>
      simp only []
      obtain ⟨cl, hcl, hid, htag⟩ := hinv (root, t, c) (lookup_some_mem _ _ _ _ hl)
      refine ⟨?_, hinv, by first | rfl | trivial⟩
      rw [hspec cl hcl htag]; simp at hid; rw [hid]
    | none =>
      simp only []
      -- invariant of the refilled registry
      have hinv' : RegInv sup { st with registry := refill st root sup } := by
        intro e he
        simp only [refill, List.mem_append, List.mem_reverse, List.mem_filterMap] at he
        rcases he with ⟨cl, hcl, hcle⟩ | he
        · cases htg : cl.tag with
          | none => simp [htg] at hcle
          | some t' =>
            simp [htg] at hcle
            subst hcle
            exact ⟨cl, hcl, rfl, htg⟩
        · exact hinv e he
      cases hl2 : lookup (refill st root sup) root t with
      | some c =>
        simp only []
        obtain ⟨cl, hcl, hid, htag⟩ := hinv' (root, t, c) (lookup_some_mem _ _ _ _ hl2)
        refine ⟨?_, hinv', by first | rfl | trivial⟩
        rw [hspec cl hcl htag]; simp at hid; rw [hid]
      | none =>
        simp only []
        refine ⟨?_, hinv', by first | rfl | trivial⟩
        simp only [spec]
        cases hf : (eligible st.classes root sup).find? (fun c => c.tag == some t) with
        | none => rfl
        | some cl =>
          exfalso
          have hm := List.mem_of_find?_eq_some hf
          have hp := List.find?_some hf
          have htag : cl.tag = some t := by simpa using hp
          apply lookup_none_not_mem _ _ _ hl2 cl.id
          simp only [refill, List.mem_append, List.mem_reverse, List.mem_filterMap]
          exact Or.inl ⟨cl, hm, by simp [htag]⟩

/-- the classes a history defines, appended to an initial list -/
def definedBy (cs : List Cls) : List Event → List Cls
  | [] => cs
  | .define c :: es => definedBy (cs ++ [c]) es
  | .decode _ _ :: es => definedBy cs es

theorem uniqueTags_prefix (sup : Mode) (cs : List Cls) (c : Cls) (h : UniqueTags sup (cs ++ [c])) : UniqueTags sup cs :=
  fun root a ha b hb t h1 h2 => h root a (eligible_mono _ c _ _ _ ha) b (eligible_mono _ c _ _ _ hb) t h1 h2

theorem uniqueTags_of_defined (sup : Mode) : ∀ (es : List Event) (cs : List Cls), UniqueTags sup (definedBy cs es) → UniqueTags sup cs
  | [], _, h => h
  | .define c :: es, cs, h => uniqueTags_prefix sup cs c (uniqueTags_of_defined sup es (cs ++ [c]) h)
  | .decode _ _ :: es, cs, h => uniqueTags_of_defined sup es cs h

/-- **C12**: every decode event of every history returns what the statement prescribes. -/
theorem decode_correct (sup : Mode) : ∀ (es : List Event) (st : State), RegInv sup st →
    UniqueTags sup (definedBy st.classes es) → run sup st es = runSpec sup st.classes es
  | [], _, _, _ => rfl
  | .define c :: es, st, hinv, hu => by
      simp only [run, step, runSpec]
      apply decode_correct sup es
      · intro e he
        obtain ⟨cl, hcl, h1, h2⟩ := hinv e he
        exact ⟨cl, eligible_mono _ c _ _ _ hcl, h1, h2⟩
      · exact hu
  | .decode root t :: es, st, hinv, hu => by
      have hu0 : UniqueTags sup st.classes := uniqueTags_of_defined sup es st.classes hu
      obtain ⟨h1, h2, h3⟩ := step_decode_correct sup st root t hinv hu0
      simp only [run, runSpec]
      rw [h1]
      simp only []
      rw [decode_correct sup es _ h2 (by rw [h3]; exact hu), h3]

/-- from the empty state -/
theorem decode_correct_init (sup : Mode) (es : List Event) (hu : UniqueTags sup (definedBy [] es)) :
    run sup {} es = runSpec sup [] es :=
  decode_correct sup es {} (fun e he => by simp at he) hu

/-- no-field mode: whatever is returned accepted the input, and it is the first such variant in
    the order "subclasses (depth-first in definition order), then the supertype" -/
theorem noField_first (cs : List Cls) (root : Nat) (sup : Mode) (accepts : Nat → Bool) (c : Nat)
    (h : noField cs root sup accepts = .inst c) :
    accepts c = true ∧ ∃ pre post, (if sup.sub then (dfs cs cs.length root).map (·.id) else []) ++ (if sup.sup then [root] else []) = pre ++ c :: post
      ∧ ∀ x ∈ pre, accepts x = false := by
  simp only [noField] at h
  split at h
  · rename_i c' hf
    have hc : c' = c := by simpa using h
    subst hc
    refine ⟨List.find?_some hf, ?_⟩
    obtain ⟨pre, post, h1, h2⟩ := List.find?_eq_some_iff_append.mp hf |>.2
    exact ⟨pre, post, h1, fun x hx => by simpa using h2 x hx⟩
  · simp at h

/-- no-field mode: the error is raised only when no variant accepts -/
theorem noField_none (cs : List Cls) (root : Nat) (sup : Mode) (accepts : Nat → Bool)
    (h : noField cs root sup accepts = .noVariant) :
    ∀ x ∈ (if sup.sub then (dfs cs cs.length root).map (·.id) else []) ++ (if sup.sup then [root] else []), accepts x = false := by
  simp only [noField] at h
  split at h
  · simp at h
  · rename_i hf
    intro x hx
    have := List.find?_eq_none.mp hf x hx
    simpa using this

/-- non-vacuity: a grandchild defined after the first decode is found by the refill -/
example : run {} {} [.define ⟨1, some 0, some "a"⟩, .decode 0 (some "b"), .define ⟨2, some 1, some "b"⟩,
    .decode 0 (some "b"), .decode 0 none]
    = [.noVariant, .inst 2, .missingDiscriminator] := by decide

end Mashu.Discr
