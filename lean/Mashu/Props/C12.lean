/-
  C12 — discriminated unions pick exactly the tagged class in any definition order.

  `decode_correct`: for EVERY history of `define` / `decode` events (classes defined before or
  after the first call, any interleaving, any length), provided tags are unique, every decode
  event of the implementation's state machine (variants map, refill on miss by walking all
  subclasses, retry) returns the eligible class tagged t among the classes defined SO FAR, or
  the documented error — by induction over the event list with the invariant `RegInv`
  (every variants-map entry points to a defined, eligible class carrying that tag).
-/
import Mashu.Discr
import Mashu.DiscrF
import Mashu.Generated
namespace Mashu.Discr

theorem findCls_append (cs : List Cls) (c x : Cls) (i : Nat) (h : findCls cs i = some x) :
    findCls (cs ++ [c]) i = some x := by
  simp only [findCls] at h ⊢
  simp [List.find?_append, h]

theorem isDesc_mono (cs : List Cls) (c : Cls) (root : Nat) : ∀ (f i : Nat),
    isDesc cs root f i = true → isDesc (cs ++ [c]) root (f + 1) i = true
  | 0, _, h => by simp [isDesc] at h
  | f + 1, i, h => by
      rw [isDesc] at h
      rw [isDesc]
      cases hf : findCls cs i with
      | none => simp [hf] at h
      | some x =>
        rw [findCls_append cs c x i hf]
        simp only [hf] at h
        cases hp : x.parent with
        | none => simp [hp] at h
        | some p =>
          simp only [hp] at h ⊢
          simp only [Bool.or_eq_true] at h ⊢
          rcases h with h | h
          · exact Or.inl h
          · exact Or.inr (isDesc_mono cs c root f p h)

theorem isDesc_fuel (cs : List Cls) (root : Nat) : ∀ (f i : Nat), isDesc cs root f i = true → isDesc cs root (f + 1) i = true
  | 0, _, h => by simp [isDesc] at h
  | f + 1, i, h => by
      rw [isDesc] at h
      rw [isDesc]
      cases hf : findCls cs i with
      | none => simp [hf] at h
      | some x =>
        simp only [hf] at h ⊢
        cases hp : x.parent with
        | none => simp [hp] at h
        | some p =>
          simp only [hp] at h ⊢
          simp only [Bool.or_eq_true] at h ⊢
          rcases h with h | h
          · exact Or.inl h
          · exact Or.inr (isDesc_fuel cs root f p h)

/-- a class that is eligible stays eligible when further classes are defined -/
theorem eligible_mono (cs : List Cls) (c : Cls) (root : Nat) (sup : Mode) (x : Cls)
    (h : x ∈ eligible cs root sup) : x ∈ eligible (cs ++ [c]) root sup := by
  simp only [mem_eligible, Bool.or_eq_true, Bool.and_eq_true] at h ⊢
  refine ⟨List.mem_append_left _ h.1, ?_⟩
  rcases h.2 with h2 | h2
  · left
    have := isDesc_mono cs c root cs.length x.id h2.2
    exact ⟨h2.1, by simpa using this⟩
  · exact Or.inr h2

/-- every entry of a variants map points to a defined, eligible class carrying that tag -/
def RegInv (sup : Mode) (st : State) : Prop :=
  ∀ e ∈ st.registry, ∃ cl ∈ eligible st.classes e.1 sup, cl.id = e.2.2 ∧ cl.tag = some e.2.1

/-- "the unique eligible class whose tag is t": for every root, no two eligible classes of the
    whole history carry the same tag -/
def UniqueTags (sup : Mode) (cs : List Cls) : Prop :=
  ∀ root, ∀ a ∈ eligible cs root sup, ∀ b ∈ eligible cs root sup, ∀ t, a.tag = some t → b.tag = some t → a = b

theorem eligible_sub (cs : List Cls) (root : Nat) (sup : Mode) (x : Cls) (h : x ∈ eligible cs root sup) : x ∈ cs :=
  ((mem_eligible cs root sup x).mp h).1

theorem lookup_some_mem (reg : List (Nat × String × Nat)) (root : Nat) (t : String) (c : Nat)
    (h : lookup reg root t = some c) : (root, t, c) ∈ reg := by
  simp only [lookup, Option.map_eq_some_iff] at h
  obtain ⟨e, hf, rfl⟩ := h
  have hm := List.mem_of_find?_eq_some hf
  have hp := List.find?_some hf
  simp only [Bool.and_eq_true, beq_iff_eq] at hp
  obtain ⟨e1, e2, e3⟩ := e
  simp only at hp
  obtain ⟨rfl, rfl⟩ := hp
  exact hm

theorem lookup_none_not_mem (reg : List (Nat × String × Nat)) (root : Nat) (t : String)
    (h : lookup reg root t = none) : ∀ c, (root, t, c) ∉ reg := by
  intro c hm
  simp only [lookup, Option.map_eq_none_iff, List.find?_eq_none] at h
  have := h (root, t, c) hm
  simp at this

/-- one decode step agrees with the statement -/
theorem step_decode_correct (sup : Mode) (st : State) (root : Nat) (t : Option String)
    (hinv : RegInv sup st) (hu : UniqueTags sup st.classes) :
    (step sup st (.decode root t)).2 = some (spec st.classes root sup t)
      ∧ RegInv sup (step sup st (.decode root t)).1
      ∧ (step sup st (.decode root t)).1.classes = st.classes := by
  cases t with
  | none => exact ⟨rfl, hinv, rfl⟩
  | some t =>
    simp only [step]
    -- what the statement says
    have hspec : ∀ cl ∈ eligible st.classes root sup, cl.tag = some t → spec st.classes root sup (some t) = .inst cl.id := by
      intro cl hcl htag
      simp only [spec]
      cases hf : (eligible st.classes root sup).find? (fun c => c.tag == some t) with
      | none =>
        rw [List.find?_eq_none] at hf
        have := hf cl hcl
        simp [htag] at this
      | some cl' =>
        have hm := List.mem_of_find?_eq_some hf
        have hp := List.find?_some hf
        have htag' : cl'.tag = some t := by simpa using hp
        have := hu root cl' hm cl hcl t htag' htag
        subst this; rfl
    cases hl : lookup st.registry root t with
    | some c =>
      simp only []
      obtain ⟨cl, hcl, hid, htag⟩ := hinv (root, t, c) (lookup_some_mem _ _ _ _ hl)
      refine ⟨?_, hinv, by first | rfl | trivial⟩
      rw [hspec cl hcl htag]; simp at hid; rw [hid]
    | none =>
      simp only []
      -- invariant of the refilled registry
      have hinv' : RegInv sup { st with registry := refill st root sup } := by
        intro e he
        simp only [refill, List.mem_append, List.mem_reverse, List.mem_filterMap] at he
        rcases he with ⟨cl, hcl, hcle⟩ | he
        · cases htg : cl.tag with
          | none => simp [htg] at hcle
          | some t' =>
            simp [htg] at hcle
            subst hcle
            exact ⟨cl, hcl, rfl, htg⟩
        · exact hinv e he
      cases hl2 : lookup (refill st root sup) root t with
      | some c =>
        simp only []
        obtain ⟨cl, hcl, hid, htag⟩ := hinv' (root, t, c) (lookup_some_mem _ _ _ _ hl2)
        refine ⟨?_, hinv', by first | rfl | trivial⟩
        rw [hspec cl hcl htag]; simp at hid; rw [hid]
      | none =>
        simp only []
        refine ⟨?_, hinv', by first | rfl | trivial⟩
        simp only [spec]
        cases hf : (eligible st.classes root sup).find? (fun c => c.tag == some t) with
        | none => rfl
        | some cl =>
          exfalso
          have hm := List.mem_of_find?_eq_some hf
          have hp := List.find?_some hf
          have htag : cl.tag = some t := by simpa using hp
          apply lookup_none_not_mem _ _ _ hl2 cl.id
          simp only [refill, List.mem_append, List.mem_reverse, List.mem_filterMap]
          exact Or.inl ⟨cl, hm, by simp [htag]⟩

/-- the classes a history defines, appended to an initial list -/
def definedBy (cs : List Cls) : List Event → List Cls
  | [] => cs
  | .define c :: es => definedBy (cs ++ [c]) es
  | .decode _ _ :: es => definedBy cs es

theorem uniqueTags_prefix (sup : Mode) (cs : List Cls) (c : Cls) (h : UniqueTags sup (cs ++ [c])) : UniqueTags sup cs :=
  fun root a ha b hb t h1 h2 => h root a (eligible_mono _ c _ _ _ ha) b (eligible_mono _ c _ _ _ hb) t h1 h2

theorem uniqueTags_of_defined (sup : Mode) : ∀ (es : List Event) (cs : List Cls), UniqueTags sup (definedBy cs es) → UniqueTags sup cs
  | [], _, h => h
  | .define c :: es, cs, h => uniqueTags_prefix sup cs c (uniqueTags_of_defined sup es (cs ++ [c]) h)
  | .decode _ _ :: es, cs, h => uniqueTags_of_defined sup es cs h

/-- **C12**: every decode event of every history returns what the statement prescribes. -/
theorem decode_correct (sup : Mode) : ∀ (es : List Event) (st : State), RegInv sup st →
    UniqueTags sup (definedBy st.classes es) → run sup st es = runSpec sup st.classes es
  | [], _, _, _ => rfl
  | .define c :: es, st, hinv, hu => by
      simp only [run, step, runSpec]
      apply decode_correct sup es
      · intro e he
        obtain ⟨cl, hcl, h1, h2⟩ := hinv e he
        exact ⟨cl, eligible_mono _ c _ _ _ hcl, h1, h2⟩
      · exact hu
  | .decode root t :: es, st, hinv, hu => by
      have hu0 : UniqueTags sup st.classes := uniqueTags_of_defined sup es st.classes hu
      obtain ⟨h1, h2, h3⟩ := step_decode_correct sup st root t hinv hu0
      simp only [run, runSpec]
      rw [h1]
      simp only []
      rw [decode_correct sup es _ h2 (by rw [h3]; exact hu), h3]

/-- from the empty state -/
theorem decode_correct_init (sup : Mode) (es : List Event) (hu : UniqueTags sup (definedBy [] es)) :
    run sup {} es = runSpec sup [] es :=
  decode_correct sup es {} (fun e he => by simp at he) hu

/-- no-field mode: whatever is returned accepted the input, and it is the first such variant in
    the order "subclasses (depth-first in definition order), then the supertype" -/
theorem noField_first (cs : List Cls) (root : Nat) (sup : Mode) (accepts : Nat → Bool) (c : Nat)
    (h : noField cs root sup accepts = .inst c) :
    accepts c = true ∧ ∃ pre post, (if sup.sub then (dfs cs cs.length root).map (·.id) else []) ++ (if sup.sup then [root] else []) = pre ++ c :: post
      ∧ ∀ x ∈ pre, accepts x = false := by
  simp only [noField] at h
  split at h
  · rename_i c' hf
    have hc : c' = c := by simpa using h
    subst hc
    refine ⟨List.find?_some hf, ?_⟩
    obtain ⟨pre, post, h1, h2⟩ := List.find?_eq_some_iff_append.mp hf |>.2
    exact ⟨pre, post, h1, fun x hx => by simpa using h2 x hx⟩
  · simp at h

/-- no-field mode: the error is raised only when no variant accepts -/
theorem noField_none (cs : List Cls) (root : Nat) (sup : Mode) (accepts : Nat → Bool)
    (h : noField cs root sup accepts = .noVariant) :
    ∀ x ∈ (if sup.sub then (dfs cs cs.length root).map (·.id) else []) ++ (if sup.sup then [root] else []), accepts x = false := by
  simp only [noField] at h
  split at h
  · simp at h
  · rename_i hf
    intro x hx
    have := List.find?_eq_none.mp hf x hx
    simpa using this

/-- the rescan visits the variants depth first, a class before its subclasses, siblings in definition
    order (the order of `iter_all_subclasses`), the root last: with classes 1, 2, 3 under the root 0 and
    6 under 1, the order is 1, 6, 2, 3, 0 — so when two eligible classes carry one tag (outside the
    statement's "unique eligible class"), the one visited later is the one a rescan leaves registered -/
theorem scan_order_is_preorder :
    (eligible [⟨0, none, none⟩, ⟨1, some 0, none⟩, ⟨2, some 0, some "t"⟩, ⟨3, some 0, none⟩, ⟨6, some 1, some "t"⟩] 0 ⟨true, true⟩).map (·.id)
      = [1, 6, 2, 3, 0]
    ∧ run ⟨true, false⟩ {} [.define ⟨0, none, none⟩, .define ⟨1, some 0, none⟩, .define ⟨2, some 0, some "t"⟩,
                              .define ⟨3, some 0, none⟩, .define ⟨6, some 1, some "t"⟩, .decode 0 (some "t")] = [.inst 2] := by
  constructor <;> decide

/-- non-vacuity: a grandchild defined after the first decode is found by the refill -/
example : run {} {} [.define ⟨1, some 0, some "a"⟩, .decode 0 (some "b"), .define ⟨2, some 1, some "b"⟩,
    .decode 0 (some "b"), .decode 0 none]
    = [.noVariant, .inst 2, .missingDiscriminator] := by decide

end Mashu.Discr

/-! ## formats: one compiled method per class and format, one registry per format -/
namespace Mashu.DiscrF
open Mashu.Discr

/-- every registered class has a method OF ITS OWN for the format of the registry it is in -/
def Inv (st : State) : Prop := ∀ e ∈ st.registry, hasOwn st.compiled e.2.2.2 e.1 = true

theorem hasOwn_mono {comp comp' : List (Nat × Fmt)} (h : ∀ e ∈ comp, e ∈ comp') (c : Nat) (f : Fmt) :
    hasOwn comp c f = true → hasOwn comp' c f = true := by
  simp only [hasOwn, List.any_eq_true]
  rintro ⟨e, he, hc⟩
  exact ⟨e, h e he, hc⟩

theorem methodOwner_own (cs : List Cls) (comp : List (Nat × Fmt)) (f : Fmt) (fuel c : Nat)
    (h : hasOwn comp c f = true) : methodOwner cs comp f (fuel + 1) c = some c := by
  simp [methodOwner, h]

theorem lookup_mem {reg : List (Fmt × Nat × String × Nat)} {k : Fmt} {root : Nat} {t : String} {c : Nat}
    (h : lookup reg k root t = some c) : ∃ e ∈ reg, e.1 = k ∧ e.2.2.2 = c := by
  simp only [lookup, Option.map_eq_some_iff] at h
  obtain ⟨e, he, hc⟩ := h
  have hm := List.mem_of_find?_eq_some he
  have hp := List.find?_some he
  simp only [Bool.and_eq_true, beq_iff_eq] at hp
  exact ⟨e, hm, hp.1.1, hc⟩

theorem inv_init : Inv {} := by intro e he; simp at he

theorem rescan_inv (m : Mode) (st : State) (f : Fmt) (root : Nat) (t : String) (h : Inv st) :
    Inv (rescan false m st f root t).1 := by
  have key : Inv { st with registry := refillReg st (regKey false f) root m, compiled := refillComp st f root m } := by
    intro e he
    simp only [refillReg, List.mem_append, List.mem_reverse, List.mem_filterMap] at he
    rcases he with ⟨c, hc, hce⟩ | he
    · cases htag : c.tag with
      | none => simp [htag] at hce
      | some tg =>
        simp only [htag, Option.map_some, Option.some.injEq] at hce
        subst hce
        simp only [regKey, Bool.false_eq_true, if_false, hasOwn, refillComp, List.any_eq_true]
        exact ⟨(c.id, f), by simp only [List.mem_append, List.mem_map]; exact Or.inl ⟨c, hc, rfl⟩, by simp⟩
    · exact hasOwn_mono (by intro x hx; simp [refillComp, hx]) _ _ (h e he)
  unfold rescan
  simp only
  split
  · split <;> exact key
  · exact key

theorem step_inv (m : Mode) (st : State) (e : Event) (h : Inv st) : Inv (step false m st e).1 := by
  cases e with
  | define c =>
    intro x hx
    simp only [step] at hx ⊢
    exact hasOwn_mono (by intro y hy; exact List.mem_cons_of_mem _ hy) _ _ (h x hx)
  | decode f root tag =>
    cases tag with
    | none => exact h
    | some t =>
      simp only [step]
      split
      · split
        · exact h
        · exact rescan_inv m st f root t h
      · exact rescan_inv m st f root t h

theorem rescan_own (m : Mode) (st : State) (f : Fmt) (root : Nat) (t : String) (h : Inv st) (c o : Nat)
    (ho : (rescan false m st f root t).2 = some (.inst c o)) : o = c := by
  have hinv := rescan_inv m st f root t h
  unfold rescan at ho hinv
  simp only at ho hinv
  split at ho
  · rename_i c' hl
    obtain ⟨e, he, hk, hc⟩ := lookup_mem hl
    have hown : hasOwn (refillComp st f root m) c' f = true := by
      have := (by
        split at hinv
        · split at hinv <;> exact hinv e he
        · exact hinv e he : hasOwn (refillComp st f root m) e.2.2.2 e.1 = true)
      simpa [hc, hk, regKey] using this
    rw [methodOwner_own _ _ _ _ _ hown] at ho
    simp only [Option.some.injEq, Outcome.inst.injEq] at ho
    omega
  · simp at ho

/-- **C12 / C14, formats.**  With one registry per format every instance is built by the method
    compiled for its OWN class, whatever the order of class definitions and of decode calls in
    the different formats. -/
theorem step_own (m : Mode) (st : State) (e : Event) (h : Inv st) (c o : Nat)
    (ho : (step false m st e).2 = some (.inst c o)) : o = c := by
  cases e with
  | define k => simp [step] at ho
  | decode f root tag =>
    cases tag with
    | none => simp [step] at ho
    | some t =>
      simp only [step] at ho
      split at ho
      · rename_i c' hl
        obtain ⟨e, he, hk, hc⟩ := lookup_mem hl
        have hown : hasOwn st.compiled c' f = true := by
          have := h e he
          simpa [hc, hk, regKey] using this
        rw [methodOwner_own _ _ _ _ _ hown] at ho
        simp only [Option.some.injEq, Outcome.inst.injEq] at ho
        omega
      · exact rescan_own m st f root t h c o ho

theorem run_own (m : Mode) : ∀ (es : List Event) (st : State), Inv st →
    ∀ c o, Outcome.inst c o ∈ run false m st es → o = c
  | [], _, _, c, o, hm => by simp [run] at hm
  | e :: es, st, h, c, o, hm => by
      have hi := step_inv m st e h
      simp only [run] at hm
      split at hm
      · rename_i out hout
        rcases List.mem_cons.mp hm with heq | hrest
        · exact step_own m st e h c o (by rw [hout, heq])
        · exact run_own m es _ hi c o hrest
      · exact run_own m es _ hi c o hm

theorem history_own (m : Mode) (es : List Event) (c o : Nat) (hm : Outcome.inst c o ∈ run false m {} es) : o = c :=
  run_own m es {} inv_init c o hm

/-- the history of finding F19: S1 decoded from JSON, S2(S1) defined afterwards and first met
    through from_dict, then decoded from JSON -/
def f19History : List Event :=
  [.define ⟨0, none, none⟩, .define ⟨1, some 0, some "1"⟩, .decode 1 0 (some "1"),
   .define ⟨2, some 1, some "2"⟩, .decode 0 0 (some "2"), .decode 1 0 (some "2")]

/-- with ONE registry for all formats (before F19) the last call builds the S2 instance with the
    method compiled for S1 … -/
theorem shared_registry_runs_parent_method :
    run true {} {} f19History = [.inst 1 1, .inst 2 2, .inst 2 1] := by decide

/-- … and with a registry per format it does not -/
theorem per_format_registry_ok :
    run false {} {} f19History = [.inst 1 1, .inst 2 2, .inst 2 2] := by decide


/-! ### refinement: each format, seen alone, is the single-format machine of `Mashu.Discr` -/

def forget : Outcome → Discr.Outcome
  | .inst c _ => .inst c
  | .missingDiscriminator => .missingDiscriminator
  | .noVariant => .noVariant

def projReg (g : Fmt) (reg : List (Fmt × Nat × String × Nat)) : List (Nat × String × Nat) :=
  reg.filterMap (fun e => if e.1 == g then some e.2 else none)

def proj (g : Fmt) (st : State) : Discr.State := { classes := st.classes, registry := projReg g st.registry }

/-- the events format `g` sees: every definition, its own decode calls -/
def evF (g : Fmt) : List Event → List Discr.Event
  | [] => []
  | .define c :: es => .define c :: evF g es
  | .decode f root t :: es => if f == g then .decode root t :: evF g es else evF g es

/-- the outcomes of the decode calls made in format `g` -/
def runAt (g : Fmt) (m : Mode) : State → List Event → List Outcome
  | _, [] => []
  | st, .define c :: es => runAt g m (step false m st (.define c)).1 es
  | st, .decode f root t :: es =>
      let r := step false m st (.decode f root t)
      match r.2 with
      | some o => if f == g then o :: runAt g m r.1 es else runAt g m r.1 es
      | none => runAt g m r.1 es

theorem lookup_proj (g : Fmt) (root : Nat) (t : String) : ∀ (reg : List (Fmt × Nat × String × Nat)),
    lookup reg g root t = Discr.lookup (projReg g reg) root t
  | [] => rfl
  | e :: reg => by
      have ih := lookup_proj g root t reg
      obtain ⟨k, r, tg, c⟩ := e
      by_cases hk : k = g
      · subst hk
        simp only [lookup, Discr.lookup, projReg, List.filterMap_cons, beq_self_eq_true, if_true, List.find?_cons, Bool.true_and] at ih ⊢
        by_cases hm : (r == root && tg == t) = true
        · simp [hm]
        · simp only [hm, Bool.false_eq_true, if_false]
          simpa [lookup, Discr.lookup, projReg] using ih
      · have hk' : (k == g) = false := by simp [hk]
        simp only [lookup, Discr.lookup, projReg, List.filterMap_cons, hk', Bool.false_eq_true, if_false, List.find?_cons, Bool.false_and] at ih ⊢
        simpa [lookup, Discr.lookup, projReg] using ih

theorem projReg_append (g : Fmt) (a b : List (Fmt × Nat × String × Nat)) : projReg g (a ++ b) = projReg g a ++ projReg g b := by
  simp [projReg, List.filterMap_append]

theorem filterMap_tagged (cs : List Cls) (F : Cls → String → α) :
    (cs.filter (fun c => c.tag.isSome)).filterMap (fun c => c.tag.map (F c)) = cs.filterMap (fun c => c.tag.map (F c)) := by
  induction cs with
  | nil => rfl
  | cons c cs ih =>
    cases h : c.tag with
    | none => simp [List.filter_cons, h, ih]
    | some t => simp [List.filter_cons, h, ih]

theorem proj_refill_same (g : Fmt) (st : State) (root : Nat) (m : Mode) :
    projReg g (refillReg st g root m) = Discr.refill (proj g st) root m := by
  simp only [refillReg, Discr.refill, projReg_append, proj]
  congr 1
  simp only [tagged, projReg]
  rw [filterMap_tagged (eligible st.classes root m) (fun c t => (g, root, t, c.id))]
  rw [← List.filterMap_reverse, ← List.filterMap_reverse, List.filterMap_filterMap]
  congr 1
  funext c
  cases c.tag <;> simp

theorem proj_refill_other (g f : Fmt) (hf : (f == g) = false) (st : State) (root : Nat) (m : Mode) :
    projReg g (refillReg st f root m) = projReg g st.registry := by
  simp only [refillReg, projReg_append]
  have : projReg g ((tagged st.classes root m).filterMap (fun c => c.tag.map (fun t => (f, root, t, c.id)))).reverse = [] := by
    simp only [projReg, List.filterMap_eq_nil_iff, List.mem_reverse, List.mem_filterMap]
    rintro e ⟨c, _, hc⟩
    cases htag : c.tag with
    | none => simp [htag] at hc
    | some t => simp only [htag, Option.map_some, Option.some.injEq] at hc; subst hc; simp [hf]
  rw [this, List.nil_append]

/-- one decode call in format `g` is one step of the single-format machine on the projection -/
theorem step_same (g : Fmt) (m : Mode) (st : State) (root : Nat) (tag : Option String) (h : Inv st) :
    (step false m st (.decode g root tag)).2.map forget = (Discr.step m (proj g st) (.decode root tag)).2 ∧
    proj g (step false m st (.decode g root tag)).1 = (Discr.step m (proj g st) (.decode root tag)).1 := by
  cases tag with
  | none => exact ⟨rfl, rfl⟩
  | some t =>
    have hl := lookup_proj g root t st.registry
    have hrinv := rescan_inv m st g root t h
    have hrescan : (rescan false m st g root t).2.map forget =
        (match Discr.lookup (Discr.refill (proj g st) root m) root t with
          | some c => some (Discr.Outcome.inst c) | none => some Discr.Outcome.noVariant) ∧
        proj g (rescan false m st g root t).1 = { (proj g st) with registry := Discr.refill (proj g st) root m } := by
      have hl2 := lookup_proj g root t (refillReg st g root m)
      rw [proj_refill_same] at hl2
      unfold rescan at hrinv ⊢
      simp only [regKey, Bool.false_eq_true, if_false] at hrinv ⊢
      rw [hl2]
      cases hd : Discr.lookup (Discr.refill (proj g st) root m) root t with
      | none => exact ⟨rfl, by simp [proj, proj_refill_same]⟩
      | some c =>
        rw [hd] at hl2
        obtain ⟨e, he, hk, hc⟩ := lookup_mem hl2
        simp only [hl2, hd] at hrinv
        have hown : hasOwn (refillComp st g root m) c g = true := by
          have := (by
            split at hrinv <;> exact hrinv e he : hasOwn (refillComp st g root m) e.2.2.2 e.1 = true)
          simpa [hc, hk] using this
        simp only [methodOwner_own _ _ _ _ _ hown]
        exact ⟨rfl, by simp [proj, proj_refill_same]⟩
    simp only [step, Discr.step, regKey, Bool.false_eq_true, if_false]
    rw [hl]
    cases hd : Discr.lookup (projReg g st.registry) root t with
    | some c =>
      have hd' : Discr.lookup (proj g st).registry root t = some c := hd
      rw [hd] at hl
      obtain ⟨e, he, hk, hc⟩ := lookup_mem hl
      have hown : hasOwn st.compiled c g = true := by
        have := h e he; simpa [hc, hk] using this
      simp only [proj, hd, methodOwner_own _ _ _ _ _ hown]
      exact ⟨rfl, trivial⟩
    | none =>
      simp only [proj, hd]
      have := hrescan
      simp only [proj] at this
      obtain ⟨h1, h2⟩ := this
      refine ⟨?_, ?_⟩
      · rw [h1]; cases Discr.lookup (Discr.refill { classes := st.classes, registry := projReg g st.registry } root m) root t <;> rfl
      · rw [h2]; cases Discr.lookup (Discr.refill { classes := st.classes, registry := projReg g st.registry } root m) root t <;> rfl

/-- a decode call in ANOTHER format leaves the projection alone -/
theorem step_other (g f : Fmt) (hf : (f == g) = false) (m : Mode) (st : State) (root : Nat) (tag : Option String) :
    proj g (step false m st (.decode f root tag)).1 = proj g st := by
  cases tag with
  | none => rfl
  | some t =>
    have hr : proj g (rescan false m st f root t).1 = proj g st := by
      unfold rescan
      simp only [regKey, Bool.false_eq_true, if_false]
      split
      · split <;> simp [proj, proj_refill_other g f hf]
      · simp [proj, proj_refill_other g f hf]
    simp only [step]
    split
    · split
      · rfl
      · exact hr
    · exact hr

theorem runAt_eq (g : Fmt) (m : Mode) : ∀ (es : List Event) (st : State), Inv st →
    (runAt g m st es).map forget = Discr.run m (proj g st) (evF g es)
  | [], _, _ => rfl
  | .define c :: es, st, h => by
      simp only [runAt, evF, Discr.run, Discr.step]
      have := runAt_eq g m es _ (step_inv m st (.define c) h)
      simpa [proj, step] using this
  | .decode f root tag :: es, st, h => by
      have hi := step_inv m st (.decode f root tag) h
      have ih := runAt_eq g m es _ hi
      by_cases hf : (f == g) = true
      · have hfg : f = g := by simpa using hf
        subst hfg
        obtain ⟨h1, h2⟩ := step_same f m st root tag h
        simp only [runAt, evF, beq_self_eq_true, if_true, Discr.run]
        rw [← h2, ← h1]
        cases hs : (step false m st (.decode f root tag)).2 with
        | none => simpa [hs] using ih
        | some o => simpa [hs] using ih
      · have hf' : (f == g) = false := by simpa using hf
        simp only [runAt, evF, hf', Bool.false_eq_true, if_false]
        rw [step_other g f hf' m st root tag] at ih
        cases hs : (step false m st (.decode f root tag)).2 with
        | none => simpa [hs] using ih
        | some o => simpa [hs] using ih


/-- **C12 across formats.**  For every history of class definitions and decode calls made through
    any number of formats (from_dict / from_json / from_msgpack of one mixin hierarchy), the calls of
    each format return what the statement prescribes for the classes defined so far — independently
    of what the other formats did in between — … -/
theorem multi_format_correct (g : Fmt) (m : Mode) (es : List Event)
    (hu : UniqueTags m (definedBy [] (evF g es))) :
    (runAt g m {} es).map forget = Discr.runSpec m [] (evF g es) := by
  rw [runAt_eq g m es {} inv_init]
  exact decode_correct_init m (evF g es) hu

/-- … and every instance is built by the method compiled for its own class (`history_own`). -/
example : (runAt 1 {} {} f19History).map forget = [.inst 1, .inst 2] := by decide


/-- what /repo does on this run (read from `SubtypeUnpackerBuilder._get_variants_attr`) -/
theorem registry_pinned : Generated.subtypeRegistryPerFormat = true := by decide

end Mashu.DiscrF
