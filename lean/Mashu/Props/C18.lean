/-
  C18 — no hidden sharing or mutation.

  Over the sharing model of the serializer (Mashu.Share), for EVERY argument value (conforming
  or not) and every schema without `Any` / union / TypedDict positions:

  * `default_shares_nothing`: with nothing listed in no_copy_collections the result refers to no
    argument object at all — every container in it was created by the serializer;
  * `shared_only_listed`: for every no_copy set N, each argument object the result refers to
    sits at a position whose origin type is listed in N and whose elements need no conversion;
  * `listed_free_is_shared_*`, `converted_not_shared_*`: the converse for one position — listed
    and conversion-free ⇒ handed out as it is; elements needing conversion ⇒ a new container,
    listed or not.
  (Non-mutation is not expressible in a pure model; it is monitored on the implementation.)
-/
import Mashu.Share
namespace Mashu.Share

mutual
/-- no `Any`, union or TypedDict position (the statement excepts Any / pass_through positions) -/
def Plain : Ty → Prop
  | .any | .union _ | .td _ _ _ => False
  | .none | .bool | .int | .float | .str | .leaf _ | .enum _ _ | .lit _ => True
  | .opt t | .tvar t => Plain t
  | .coll _ t => Plain t
  | .map _ k t | .chain k t => Plain k ∧ Plain t
  | .tfix ts => PlainL ts
  | .tunp pre mid post => PlainL pre ∧ Plain mid ∧ PlainL post
  | .nt _ fs _ _ => PlainN fs
  | .dc _ _ fs => PlainF fs
def PlainL : List Ty → Prop
  | [] => True
  | t :: ts => Plain t ∧ PlainL ts
def PlainN : List (String × Ty) → Prop
  | [] => True
  | (_, t) :: fs => Plain t ∧ PlainN fs
def PlainF : List (FieldDef × Ty) → Prop
  | [] => True
  | (_, t) :: fs => Plain t ∧ PlainF fs
end

/-- a position that is handed out by reference under N: listed origin, conversion-free elements -/
def ByRef (N : NoCopy) : Ty → Prop
  | .coll o t => N.hasC o = true ∧ identN N t = true
  | .map o k t => N.hasM o = true ∧ identN N k = true ∧ ((o == .counter) = true ∨ identN N t = true)
  | _ => False

/-- the property of an output: every reference in it is a ByRef position -/
def AllByRef (N : NoCopy) (o : OV) : Prop := ∀ p ∈ refs o, ByRef N p.2

theorem refsL_append (a b : List OV) : refs.refsL (a ++ b) = refs.refsL a ++ refs.refsL b := by
  induction a with
  | nil => rfl
  | cons x xs ih => simp [refs.refsL, ih]

theorem allByRef_fresh {N : NoCopy} {items : List OV} (h : ∀ x ∈ items, AllByRef N x) : AllByRef N (.fresh items) := by
  induction items with
  | nil => intro p hp; simp [refs, refs.refsL] at hp
  | cons x xs ih =>
    intro p hp
    simp only [refs, refs.refsL, List.mem_append] at hp
    rcases hp with hp | hp
    · exact h x (by simp) p hp
    · exact ih (fun y hy => h y (by simp [hy])) p (by simpa [refs] using hp)

theorem allByRef_atom (N : NoCopy) : AllByRef N .atom := by intro p hp; simp [refs] at hp

theorem allByRef_of_mem_fresh {N : NoCopy} {items : List OV} (h : AllByRef N (.fresh items)) : ∀ x ∈ items, AllByRef N x := by
  induction items with
  | nil => intro x hx; simp at hx
  | cons y ys ih =>
    intro x hx p hp
    simp only [List.mem_cons] at hx
    rcases hx with rfl | hx
    · exact h p (by simp [refs, refs.refsL, hp])
    · exact ih (fun q hq => h q (by simp only [refs, refs.refsL, List.mem_append]; exact Or.inr (by simpa [refs] using hq))) x hx p hp

mutual
theorem packS_byRef (N : NoCopy) : ∀ (t : Ty) (v : SV), Plain t → AllByRef N (packS N t v)
  | .any, v, h => by simp [Plain] at h
  | .union _, v, h => by simp [Plain] at h
  | .td _ _ _, v, h => by simp [Plain] at h
  | .none, v, _ => by simp only [packS]; exact allByRef_atom N
  | .bool, v, _ => by simp only [packS]; exact allByRef_atom N
  | .int, v, _ => by simp only [packS]; exact allByRef_atom N
  | .float, v, _ => by simp only [packS]; exact allByRef_atom N
  | .str, v, _ => by simp only [packS]; exact allByRef_atom N
  | .leaf _, v, _ => by simp only [packS]; exact allByRef_atom N
  | .enum _ _, v, _ => by simp only [packS]; exact allByRef_atom N
  | .lit _, v, _ => by simp only [packS]; exact allByRef_atom N
  | .opt t, v, h => by
      simp only [packS]
      split
      · exact allByRef_atom N
      · exact packS_byRef N t _ (by simpa only [Plain] using h)
  | .coll o t, v, h => by
      simp only [packS]
      split
      · rename_i id oo items
        by_cases hc : (N.hasC o && identN N t) = true
        · simp only [hc, if_true]
          intro p hp
          simp only [refs, List.mem_singleton] at hp
          subst hp
          simp only [Bool.and_eq_true] at hc
          exact hc
        · simp only [hc, if_false]
          apply allByRef_fresh
          intro x hx
          obtain ⟨y, _, rfl⟩ := List.mem_map.mp hx
          exact packS_byRef N t y (by simpa only [Plain] using h)
      · exact allByRef_atom N
  | .map o k t, v, h => by
      simp only [Plain] at h
      simp only [packS]
      split
      · rename_i id oo kvs
        by_cases hc : (N.hasM o && identN N k && (o == .counter || identN N t)) = true
        · simp only [hc, if_true]
          intro p hp
          simp only [refs, List.mem_singleton] at hp
          subst hp
          simp only [Bool.and_eq_true, Bool.or_eq_true] at hc
          exact ⟨hc.1.1, hc.1.2, hc.2⟩
        · simp only [hc, if_false]
          apply allByRef_fresh
          intro x hx
          obtain ⟨y, _, rfl⟩ := List.mem_map.mp hx
          apply allByRef_fresh
          intro z hz
          simp only [List.mem_cons, List.mem_nil_iff, or_false] at hz
          rcases hz with rfl | rfl
          · exact packS_byRef N k y.1 h.1
          · split
            · exact allByRef_atom N
            · exact packS_byRef N t y.2 h.2
      · exact allByRef_atom N
  | .chain k t, v, h => by
      simp only [Plain] at h
      simp only [packS]
      split
      · apply allByRef_fresh
        intro x hx
        obtain ⟨m, _, rfl⟩ := List.mem_map.mp hx
        split
        · apply allByRef_fresh
          intro y hy
          obtain ⟨p, _, rfl⟩ := List.mem_map.mp hy
          apply allByRef_fresh
          intro z hz
          simp only [List.mem_cons, List.mem_nil_iff, or_false] at hz
          rcases hz with rfl | rfl
          · exact packS_byRef N k p.1 h.1
          · exact packS_byRef N t p.2 h.2
        · exact allByRef_atom N
      · exact allByRef_atom N
  | .tvar t, v, h => by
      simp only [packS]
      split
      · apply allByRef_fresh
        intro x hx
        obtain ⟨y, _, rfl⟩ := List.mem_map.mp hx
        exact packS_byRef N t y (by simpa only [Plain] using h)
      · exact allByRef_atom N
  | .tfix ts, v, h => by
      simp only [packS]
      split
      · exact allByRef_fresh (packSL_byRef N ts _ (by simpa only [Plain] using h))
      · exact allByRef_atom N
  | .tunp pre mid post, v, h => by
      simp only [Plain] at h
      simp only [packS]
      split
      · apply allByRef_fresh
        intro x hx
        simp only [List.mem_append] at hx
        rcases hx with (hx | hx) | hx
        · exact packSL_byRef N pre _ h.1 x hx
        · obtain ⟨y, _, rfl⟩ := List.mem_map.mp hx
          exact packS_byRef N mid y h.2.1
        · exact packSL_byRef N post _ h.2.2 x hx
      · exact allByRef_atom N
  | .nt _ fs _ _, v, h => by
      simp only [packS]
      split
      · exact allByRef_fresh (packSN_byRef N fs _ (by simpa only [Plain] using h))
      · exact allByRef_atom N
  | .dc _ _ fs, v, h => by
      simp only [packS]
      split
      · exact allByRef_fresh (packSF_byRef N fs _ (by simpa only [Plain] using h))
      · exact allByRef_atom N

theorem packSL_byRef (N : NoCopy) : ∀ (ts : List Ty) (vs : List SV), PlainL ts → ∀ x ∈ packSL N ts vs, AllByRef N x
  | [], vs, _ => by intro x hx; simp [packSL] at hx
  | t :: ts, [], _ => by intro x hx; simp [packSL] at hx
  | t :: ts, v :: vs, h => by
      simp only [PlainL] at h
      intro x hx
      simp only [packSL, List.mem_cons] at hx
      rcases hx with rfl | hx
      · exact packS_byRef N t v h.1
      · exact packSL_byRef N ts vs h.2 x hx

theorem packSN_byRef (N : NoCopy) : ∀ (fs : List (String × Ty)) (vs : List SV), PlainN fs → ∀ x ∈ packSN N fs vs, AllByRef N x
  | [], vs, _ => by intro x hx; simp [packSN] at hx
  | (n, t) :: fs, [], _ => by intro x hx; simp [packSN] at hx
  | (n, t) :: fs, v :: vs, h => by
      simp only [PlainN] at h
      intro x hx
      simp only [packSN, List.mem_cons] at hx
      rcases hx with rfl | hx
      · exact packS_byRef N t v h.1
      · exact packSN_byRef N fs vs h.2 x hx

theorem packSF_byRef (N : NoCopy) : ∀ (fs : List (FieldDef × Ty)) (vs : List SV), PlainF fs → ∀ x ∈ packSF N fs vs, AllByRef N x
  | [], vs, _ => by intro x hx; simp [packSF] at hx
  | (f, t) :: fs, [], _ => by intro x hx; simp [packSF] at hx
  | (f, t) :: fs, v :: vs, h => by
      simp only [PlainF] at h
      intro x hx
      simp only [packSF] at hx
      split at hx
      · exact packSF_byRef N fs vs h.2 x hx
      · simp only [List.mem_cons] at hx
        rcases hx with rfl | hx
        · exact packS_byRef N t v h.1
        · exact packSF_byRef N fs vs h.2 x hx
end

/-- **C18, under no_copy_collections.**  Every argument object the result refers to sits at a
    position whose origin type is listed and whose elements need no conversion. -/
theorem shared_only_listed (N : NoCopy) (t : Ty) (v : SV) (h : Plain t) :
    ∀ p ∈ refs (packS N t v), ByRef N p.2 := packS_byRef N t v h

/-- nothing is conversion-free-and-listed when nothing is listed -/
theorem byRef_empty (t : Ty) : ¬ ByRef {} t := by
  cases t <;> simp [ByRef, NoCopy.hasC, NoCopy.hasM]
  · rename_i o t; cases o <;> simp
  · rename_i o k t; cases o <;> simp

/-- **C18, default dialect.**  The result shares nothing with the argument. -/
theorem default_shares_nothing (t : Ty) (v : SV) (h : Plain t) : refs (packS {} t v) = [] := by
  have := packS_byRef {} t v h
  cases hr : refs (packS {} t v) with
  | nil => rfl
  | cons p ps => exact absurd (this p (by simp [hr])) (byRef_empty p.2)

/-- listed and conversion-free ⇒ the container is handed out as it is … -/
theorem listed_free_is_shared_coll (N : NoCopy) (o : CollO) (t : Ty) (id : Nat) (oo : String) (items : List SV)
    (h1 : N.hasC o = true) (h2 : identN N t = true) :
    packS N (.coll o t) (.box id oo items) = .ref (.box id oo items) (.coll o t) := by
  simp [packS, h1, h2]

theorem listed_free_is_shared_map (N : NoCopy) (o : MapO) (k t : Ty) (id : Nat) (oo : String) (kvs : List (SV × SV))
    (h1 : N.hasM o = true) (h2 : identN N k = true) (h3 : identN N t = true) :
    packS N (.map o k t) (.kv id oo kvs) = .ref (.kv id oo kvs) (.map o k t) := by
  simp [packS, h1, h2, h3]

/-- … and elements that need conversion ⇒ a new container, listed or not -/
theorem converted_not_shared_coll (N : NoCopy) (o : CollO) (t : Ty) (id : Nat) (oo : String) (items : List SV)
    (h : identN N t = false) :
    packS N (.coll o t) (.box id oo items) = .fresh (items.map (packS N t)) := by
  simp [packS, h]

/-- non-vacuity: `Dict[str, List[int]]` with only `list` listed — the dict is new, its lists are the argument's -/
example :
    refIds (packS { list := true } (.map .dict .str (.coll .list .int))
      (.kv 1 "dict" [(.atom, .box 2 "list" [.atom]), (.atom, .box 3 "list" [])])) = [2, 3] := by decide

end Mashu.Share
