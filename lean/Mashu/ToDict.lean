/-
  Mashu.ToDict — the option branching of the generated `to_dict`
  (builder.py `_add_pack_method_lines`, `_pack_method_set_value`, `__pack_method_set_value`,
  `get_pack_method_default_flag_values`, `get_dialect_or_config_option`), kept branch for
  branch, and the three-line specification `project` it is supposed to equal (property C08).
-/
import Mashu.Val
namespace Mashu.ToDict

/-- what the builder knows about one field when it emits code -/
structure FieldS where
  name : String
  alias : Option String := none
  nullable : Bool := false        -- could_be_none
  identPacker : Bool := false     -- packer == "value"
  default : Option V := none      -- none = MISSING (factories: the value they produce)
  skip : Bool := false            -- metadata serialize="omit"
  deriving Repr, Inhabited

/-- one field of an instance: the raw attribute and what the field's packer makes of it
    (only used when the raw value is not None for nullable fields) -/
structure FieldV where
  raw : V
  packed : V
  deriving Repr, Inhabited

/-- an option as a namespace may carry it: unset, False or True -/
abbrev Opt3 := Option Bool

/-- the four namespaces consulted for an option, and the order table extracted from the source -/
structure Sources where
  callDialect : Opt3 := none
  configDialect : Opt3 := none
  config : Opt3 := none
  defaultDialect : Opt3 := none
  deriving Repr, Inhabited

def Sources.get (s : Sources) : String → Opt3
  | "callDialect" => s.callDialect
  | "configDialect" => s.configDialect
  | "config" => s.config
  | "defaultDialect" => s.defaultDialect
  | _ => none

/-- `get_dialect_or_config_option(option, False)`: first namespace, in `order`, that sets it -/
def resolve (order : List String) (s : Sources) : Bool :=
  match order.findSome? (fun n => s.get n) with
  | some b => b
  | none => false

/-- everything that is fixed when the method is compiled -/
structure Build where
  omitNone : Bool            -- resolved options
  omitDefault : Bool
  sba : Bool                 -- serialize_by_alias
  omitNoneFeature : Bool     -- TO_DICT_ADD_OMIT_NONE_FLAG
  byAliasFeature : Bool      -- TO_DICT_ADD_BY_ALIAS_FLAG
  sortKeys : Bool
  deriving Repr, Inhabited

/-- the keyword flags as the running method sees them (their defaults are the resolved options;
    a caller can only pass them when the feature is on) -/
structure Kw where
  omitNone : Bool
  byAlias : Bool
  deriving Repr, Inhabited

/-- Python `==` between a raw value and the default, as an uninterpreted parameter -/
abbrev PyEq := V → V → Bool

/-- `__pack_method_set_value`: which key receives the value -/
def keyOf (b : Build) (kw : Kw) (f : FieldS) : String :=
  match f.alias with
  | some a =>
      if b.byAliasFeature then (if kw.byAlias then a else f.name)
      else (if b.sba then a else f.name)
  | none => f.name

/-- `_pack_method_set_value`: optional `if value != default:` guard, then the assignment -/
def setValue (eq : PyEq) (b : Build) (kw : Kw) (f : FieldS) (raw : V) (packed : V) (guardDefault : Bool) :
    List (String × V) :=
  if guardDefault then
    match f.default with
    | some dv => if eq raw dv then [] else [(keyOf b kw f, packed)]
    | none => [(keyOf b kw f, packed)]
  else [(keyOf b kw f, packed)]

def defaultIsNone (f : FieldS) : Bool := match f.default with | some .none => true | _ => false

/-- the per-field block of the kwargs-incremental body -/
def implField (eq : PyEq) (b : Build) (kw : Kw) (f : FieldS) (v : FieldV) : List (String × V) :=
  if f.nullable then
    if f.identPacker && !b.omitNone && !b.omitNoneFeature && !(b.omitDefault && defaultIsNone f) then
      -- fast path: no None test at all
      setValue eq b kw f v.raw v.raw b.omitDefault
    else if !isNone v.raw then
      setValue eq b kw f v.raw v.packed (b.omitDefault && !defaultIsNone f)
    else if b.omitNone && !b.omitNoneFeature then []
    else if b.omitDefault && defaultIsNone f then []
    else if b.omitNoneFeature then (if !kw.omitNone then setValue eq b kw f v.raw .none false else [])
    else setValue eq b kw f v.raw .none false
  else
    setValue eq b kw f v.raw v.packed b.omitDefault

/-- does the builder take the kwargs-incremental body (otherwise a dict literal)? -/
def incremental (b : Build) (fs : List FieldS) : Bool :=
  let live := fs.filter (fun f => !f.skip)
  live.any (fun f => f.nullable && !f.identPacker)
    || (live.any (fun f => f.nullable) && (b.omitNone || b.omitNoneFeature))
    || (b.byAliasFeature && live.any (fun f => f.alias.isSome))
    || b.omitDefault

/-- the dict-literal body -/
def literalField (b : Build) (f : FieldS) (v : FieldV) : List (String × V) :=
  let key := if b.sba then f.alias.getD f.name else f.name
  [(key, if f.identPacker then v.raw else v.packed)]

def insertBy (p : FieldS × FieldV) : List (FieldS × FieldV) → List (FieldS × FieldV)
  | [] => [p]
  | x :: xs => if p.1.name < x.1.name then p :: x :: xs else x :: insertBy p xs

def sortByName : List (FieldS × FieldV) → List (FieldS × FieldV)
  | [] => []
  | p :: ps => insertBy p (sortByName ps)

/-- **the implementation**: what the generated method returns -/
def toDictImpl (eq : PyEq) (b : Build) (kw : Kw) (fvs : List (FieldS × FieldV)) : List (String × V) :=
  let fvs := if b.sortKeys then sortByName fvs else fvs
  let live := fvs.filter (fun p => !p.1.skip)
  if incremental b (fvs.map (·.1)) then live.flatMap (fun p => implField eq b kw p.1 p.2)
  else live.flatMap (fun p => literalField b p.1 p.2)

/-! ### the public method forwarding its keyword flags to a dialect-specific method -/

/-- keyword flags a caller may pass explicitly (`none` = not passed) -/
structure Passed where
  omitNone : Opt3 := none
  byAlias : Opt3 := none
  deriving Repr, Inhabited

/-- what the running method sees when `to_dict(dialect=D, ...)` is called: the public method
    (compiled without D) forwards ITS flag values — explicit, or its own defaults — to the
    method compiled for D -/
def forwardedKw (order : List String) (sOn sBa : Sources) (p : Passed) : Kw :=
  { omitNone := p.omitNone.getD (resolve order { sOn with callDialect := none }),
    byAlias := p.byAlias.getD (resolve order { sBa with callDialect := none }) }

/-- what the statement prescribes: an explicit keyword, else the option as resolved with the
    call dialect first -/
def specKw (order : List String) (sOn sBa : Sources) (p : Passed) : Kw :=
  { omitNone := p.omitNone.getD (resolve order sOn),
    byAlias := p.byAlias.getD (resolve order sBa) }

/-! ### the specification -/

/-- the options in effect for one call -/
structure Eff where
  omitNone : Bool
  omitDefault : Bool
  byAlias : Bool
  sortKeys : Bool

def effective (b : Build) (kw : Kw) : Eff :=
  { omitNone := if b.omitNoneFeature then kw.omitNone else b.omitNone,
    omitDefault := b.omitDefault,
    byAlias := if b.byAliasFeature then kw.byAlias else b.sba,
    sortKeys := b.sortKeys }

/-- the plain serialization of one field: its name and its value (None stays None for a
    nullable field, the packer's result otherwise) -/
def plainVal (f : FieldS) (v : FieldV) : V :=
  if f.nullable && isNone v.raw then .none
  else if f.identPacker then v.raw else v.packed

/-- **the specification**: plain output with None-valued keys removed iff omit_none, keys equal
    to their default removed iff omit_default, keys renamed iff by-alias, order by field name
    iff sort_keys; no value changed -/
def project (eq : PyEq) (e : Eff) (fvs : List (FieldS × FieldV)) : List (String × V) :=
  let fvs := if e.sortKeys then sortByName fvs else fvs
  (fvs.filter (fun p => !p.1.skip)).flatMap (fun p =>
    let f := p.1
    let v := p.2
    let dropNone := e.omitNone && f.nullable && isNone v.raw
    let dropDefault := e.omitDefault && (match f.default with | some dv => eq v.raw dv | none => false)
    if dropNone || dropDefault then []
    else [(if e.byAlias then f.alias.getD f.name else f.name, plainVal f v)])

end Mashu.ToDict
