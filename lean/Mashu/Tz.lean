/-
  Mashu.Tz — `datetime.timezone.tzname(None)` for whole-minute offsets (stdlib, the
  documented 'UTC' / 'UTC±hh:mm' rendering) and mashumaro's own `parse_timezone`
  (mashumaro/core/helpers.py), on characters.
-/
namespace Mashu.Tz

def digit (n : Nat) : Char := Char.ofNat (48 + n)

/-- `timezone(timedelta(minutes=m)).tzname(None)` for `-1440 < m < 1440`. -/
def tzname (m : Int) : List Char :=
  if m = 0 then ['U', 'T', 'C']
  else
    let a := m.natAbs
    let h := a / 60
    let mm := a % 60
    ['U', 'T', 'C', (if m < 0 then '-' else '+'), digit (h / 10), digit (h % 10), ':', digit (mm / 10), digit (mm % 10)]

def isDigitIn (c : Char) (lo hi : Nat) : Bool := lo + 48 ≤ c.toNat && c.toNat ≤ hi + 48

def dval (c : Char) : Nat := c.toNat - 48

/-- The regular expression `^UTC(([+-][0-2][0-9]):([0-5][0-9]))?$` followed by the
    arithmetic of `parse_timezone`.  `none` = ValueError.  (`$` also matches before a final
    newline, and `datetime.timezone` rejects offsets of 24 h or more.)
    The minutes take the sign of the matched text. -/
def parseCore : List Char → Option Int
  | ['U', 'T', 'C'] => some 0
  | ['U', 'T', 'C', s, h1, h0, ':', m1, m0] =>
      if (s = '+' ∨ s = '-') ∧ isDigitIn h1 0 2 ∧ isDigitIn h0 0 9 ∧ isDigitIn m1 0 5 ∧ isDigitIn m0 0 9 then
        let h := dval h1 * 10 + dval h0
        let mm := dval m1 * 10 + dval m0
        let tot : Int := h * 60 + mm
        if tot ≥ 1440 then none
        else some (if s = '-' then -tot else tot)
      else none
  | _ => none

def stripNl (s : List Char) : List Char :=
  match s.reverse with
  | '\n' :: r => r.reverse
  | _ => s

/-- `parse_timezone` since fix F47 (`fullmatch`): exactly the documented format -/
def parseTz (s : List Char) : Option Int := parseCore s

/-- before it (`re.match` with a pattern ending in `$`): one trailing newline was let through -/
def parseTzLenient (s : List Char) : Option Int := parseCore (stripNl s)

/-- The pinned behaviour before the fix (minutes negated only when the hour part is
    negative), kept to show what the theorem excludes. -/
def parseCoreOld : List Char → Option Int
  | ['U', 'T', 'C'] => some 0
  | ['U', 'T', 'C', s, h1, h0, ':', m1, m0] =>
      if (s = '+' ∨ s = '-') ∧ isDigitIn h1 0 2 ∧ isDigitIn h0 0 9 ∧ isDigitIn m1 0 5 ∧ isDigitIn m0 0 9 then
        let h : Int := dval h1 * 10 + dval h0
        let hs : Int := if s = '-' then -h else h
        let mm : Int := dval m1 * 10 + dval m0
        let tot : Int := hs * 60 + (if hs ≥ 0 then mm else -mm)
        if tot ≥ 1440 ∨ tot ≤ -1440 then none else some tot
      else none
  | _ => none

end Mashu.Tz
