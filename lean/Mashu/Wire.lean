/-
  Mashu.Wire — JSON wire format of the line protocol between the Python harness and the
  executable model.  Not used by any theorem; part of the correspondence check (trusted base).
-/
import Lean.Data.Json
import Mashu.Unpack
open Lean

namespace Mashu.Wire

def leafNames : List (String × Leaf) :=
  [("datetime", .datetime), ("date", .date), ("time", .time), ("timedelta", .timedelta),
   ("timezone", .timezone), ("zoneinfo", .zoneinfo), ("uuid", .uuid), ("decimal", .decimal),
   ("fraction", .fraction), ("ipv4addr", .ipv4addr), ("ipv6addr", .ipv6addr), ("ipv4net", .ipv4net),
   ("ipv6net", .ipv6net), ("ipv4if", .ipv4if), ("ipv6if", .ipv6if), ("path", .path),
   ("pattern", .pattern), ("bytes", .bytes), ("bytearray", .bytearray)]

def collNames : List (String × CollO) :=
  [("list", .list), ("set", .set), ("frozenset", .frozenset), ("deque", .deque), ("tuple", .tuple),
   ("chainmap", .chainmap)]

def mapNames : List (String × MapO) :=
  [("dict", .dict), ("odict", .odict), ("counter", .counter), ("mproxy", .mproxy), ("ddict", .ddict)]

def ekNames : List (String × EK) :=
  [("ValueError", .valueError), ("TypeError", .typeError), ("KeyError", .keyError),
   ("IndexError", .indexError), ("AttributeError", .attributeError), ("LookupError", .lookupError),
   ("other", .other)]

def lookupName {α} (tbl : List (String × α)) (s : String) : Except String α :=
  match tbl.lookup s with
  | some a => .ok a
  | none => .error s!"unknown name {s}"

def nameOf {α} [BEq α] (tbl : List (String × α)) (a : α) : String :=
  match tbl.find? (fun p => p.2 == a) with
  | some p => p.1
  | none => "?"

instance : BEq EK := ⟨fun a b => decide (a = b)⟩

def arr (j : Json) : Except String (Array Json) :=
  match j with
  | .arr a => .ok a
  | _ => .error s!"array expected: {j.compress}"

def str (j : Json) : Except String String :=
  match j with
  | .str s => .ok s
  | _ => .error s!"string expected: {j.compress}"

def bool (j : Json) : Except String Bool :=
  match j with
  | .bool b => .ok b
  | _ => .error s!"bool expected: {j.compress}"

partial def toV (j : Json) : Except String V := do
  match j with
  | .null => pure .none
  | .bool b => pure (.bool b)
  | .arr a =>
    let tag ← str a[0]!
    match tag with
    | "i" => match (← str a[1]!).toInt? with
        | some i => pure (.int i)
        | none => throw "bad int"
    | "f" => pure (.float (← str a[1]!))
    | "s" => pure (.str (← str a[1]!))
    | "leaf" => pure (.leaf (← lookupName leafNames (← str a[1]!)) (← str a[2]!))
    | "enum" => pure (.enum (← str a[1]!) (← str a[2]!))
    | "coll" => do
        let xs ← (← arr a[2]!).toList.mapM toV
        pure (.coll (← lookupName collNames (← str a[1]!)) xs)
    | "map" => do
        let xs ← (← arr a[2]!).toList.mapM (fun kv => do
          let kv ← arr kv
          pure ((← toV kv[0]!), (← toV kv[1]!)))
        pure (.map (← lookupName mapNames (← str a[1]!)) xs)
    | "nt" => do
        let xs ← (← arr a[2]!).toList.mapM toV
        pure (.ntuple (← str a[1]!) xs)
    | "inst" => do
        let xs ← (← arr a[2]!).toList.mapM (fun kv => do
          let kv ← arr kv
          pure ((← str kv[0]!), (← toV kv[1]!)))
        pure (.inst (← str a[1]!) xs)
    | "tag" => pure (.tagged (← str a[1]!) (← toV a[2]!))
    | t => throw s!"unknown value tag {t}"
  | _ => throw s!"bad value {j.compress}"

partial def ofV : V → Json
  | .none => .null
  | .bool b => .bool b
  | .int i => .arr #["i", toString i]
  | .float t => .arr #["f", t]
  | .str s => .arr #["s", s]
  | .leaf k c => .arr #["leaf", nameOf leafNames k, c]
  | .enum c m => .arr #["enum", c, m]
  | .coll o vs => .arr #["coll", nameOf collNames o, .arr (vs.map ofV).toArray]
  | .map o kvs => .arr #["map", nameOf mapNames o, .arr (kvs.map (fun kv => Json.arr #[ofV kv.1, ofV kv.2])).toArray]
  | .ntuple c vs => .arr #["nt", c, .arr (vs.map ofV).toArray]
  | .inst c fs => .arr #["inst", c, .arr (fs.map (fun kv => Json.arr #[Json.str kv.1, ofV kv.2])).toArray]
  | .tagged m v => .arr #["tag", m, ofV v]

def getB (j : Json) (k : String) (d : Bool := false) : Bool :=
  match j.getObjVal? k with
  | .ok (.bool b) => b
  | _ => d

def toCfg (j : Json) : Cfg :=
  { serializeByAlias := getB j "serialize_by_alias", omitNone := getB j "omit_none",
    omitDefault := getB j "omit_default", sortKeys := getB j "sort_keys",
    allowNotByAlias := getB j "allow_deserialization_not_by_alias",
    forbidExtraKeys := getB j "forbid_extra_keys", ntAsDict := getB j "namedtuple_as_dict" }

def optV (j : Json) : Except String (Option V) :=
  match j with
  | .arr a => if a.size == 2 then (toV a[1]!).map some else .error "bad option"
  | .null => .ok none
  | _ => .error "bad option"

def toField (j : Json) : Except String FieldDef := do
  let name ← str (j.getObjValD "name")
  let alias0 ← (match j.getObjValD "alias" with | .str s => pure (some s) | _ => pure none : Except String (Option String))
  -- C09: the alias may be given by its three sources; the model resolves the precedence
  let alias : Option String := match j.getObjVal? "alias_sources" with
    | .ok src =>
        let md : Option String := match src.getObjValD "meta" with | .str s => some s | _ => none
        let ann : List String := match src.getObjValD "annotated" with
          | .arr a => a.toList.filterMap (fun x => match x with | .str s => some s | _ => none)
          | _ => []
        let cfg : Option String := match src.getObjValD "config" with | .str s => some s | _ => none
        aliasOf md ann cfg
    | .error _ => alias0
  let dflt ← optV (j.getObjValD "default")
  pure { name := name, alias := alias, default := dflt, init := getB j "init" true, serOmit := getB j "omit" }

partial def toTy (j : Json) : Except String Ty := do
  match j with
  | .str "any" => pure .any
  | .str "none" => pure .none
  | .str "bool" => pure .bool
  | .str "int" => pure .int
  | .str "float" => pure .float
  | .str "str" => pure .str
  | .arr a =>
    let tag ← str a[0]!
    let named (j : Json) : Except String (List (String × Ty)) := do
      (← arr j).toList.mapM (fun p => do
        let p ← arr p
        pure ((← str p[0]!), (← toTy p[1]!)))
    match tag with
    | "leaf" => pure (.leaf (← lookupName leafNames (← str a[1]!)))
    | "enum" => do
        let ms ← (← arr a[2]!).toList.mapM (fun p => do
          let p ← arr p
          pure ((← str p[0]!), (← toV p[1]!)))
        pure (.enum (← str a[1]!) ms)
    | "lit" => do
        let vs ← (← arr a[1]!).toList.mapM (fun p => do
          let p ← arr p
          pure ((← toV p[0]!), (← toV p[1]!)))
        pure (.lit vs)
    | "opt" => pure (.opt (← toTy a[1]!))
    | "union" => pure (.union (← (← arr a[1]!).toList.mapM toTy))
    | "coll" => pure (.coll (← lookupName collNames (← str a[1]!)) (← toTy a[2]!))
    | "map" => pure (.map (← lookupName mapNames (← str a[1]!)) (← toTy a[2]!) (← toTy a[3]!))
    | "chain" => pure (.chain (← toTy a[1]!) (← toTy a[2]!))
    | "tvar" => pure (.tvar (← toTy a[1]!))
    | "tfix" => pure (.tfix (← (← arr a[1]!).toList.mapM toTy))
    | "tunp" => pure (.tunp (← (← arr a[1]!).toList.mapM toTy) (← toTy a[2]!) (← (← arr a[3]!).toList.mapM toTy))
    | "nt" => do
        let defs ← (← arr a[3]!).toList.mapM toV
        let asD : Option Bool := match a[4]! with | .bool b => some b | _ => none
        pure (.nt (← str a[1]!) (← named a[2]!) defs asD)
    | "td" => pure (.td (← str a[1]!) (← named a[2]!) (← named a[3]!))
    | "dc" => do
        let fs ← (← arr a[3]!).toList.mapM (fun p => do
          let p ← arr p
          pure ((← toField p[0]!), (← toTy p[1]!)))
        pure (.dc (← str a[1]!) (toCfg a[2]!) fs)
    | t => throw s!"unknown type tag {t}"
  | _ => throw s!"bad type {j.compress}"

def toOp (j : Json) : Except String Op := do
  match j with
  | .str "int" => pure .int
  | .str "float" => pure .float
  | .str "str" => pure .str
  | .str "bool" => pure .bool
  | .str "iter" => pure .iter
  | .arr a =>
      let k ← lookupName leafNames (← str a[1]!)
      match (← str a[0]!) with
      | "print" => pure (.print k)
      | "parse" => pure (.parse k)
      | t => throw s!"bad op {t}"
  | _ => throw "bad op"

structure OracleTable where
  calls : List (Op × V × Except EK V)
  eqs : List (V × V × Bool)
  enums : List (String × String × V) := []

def toOracleTable (j : Json) : Except String OracleTable := do
  let calls ← (match j.getObjVal? "calls" with
    | .ok c => do
        (← arr c).toList.mapM (fun e => do
          let e ← arr e
          let op ← toOp e[0]!
          let v ← toV e[1]!
          let r ← arr e[2]!
          let res : Except EK V ← (match (← str r[0]!) with
            | "ok" => do pure (.ok (← toV r[1]!))
            | _ => do pure (.error (← lookupName ekNames (← str r[1]!))))
          pure (op, v, res))
    | .error _ => pure [])
  let eqs ← (match j.getObjVal? "eq" with
    | .ok c => do
        (← arr c).toList.mapM (fun e => do
          let e ← arr e
          pure ((← toV e[0]!), (← toV e[1]!), (← bool e[2]!)))
    | .error _ => pure [])
  let enums ← (match j.getObjVal? "enums" with
    | .ok c => do
        (← arr c).toList.mapM (fun e => do
          let e ← arr e
          pure ((← str e[0]!), (← str e[1]!), (← toV e[2]!)))
    | .error _ => pure [])
  pure { calls := calls, eqs := eqs, enums := enums }

/-- sets are compared without regard to element order -/
partial def normV : V → V
  | .coll o vs =>
      let vs' := vs.map normV
      if o == .set || o == .frozenset then
        .coll o ((vs'.toArray.qsort (fun a b => (ofV a).compress < (ofV b).compress)).toList)
      else .coll o vs'
  | .map o kvs => .map o (kvs.map (fun kv => (normV kv.1, normV kv.2)))
  | .ntuple c vs => .ntuple c (vs.map normV)
  | .inst c fs => .inst c (fs.map (fun kv => (kv.1, normV kv.2)))
  | .tagged m v => .tagged m (normV v)
  | v => v

/-- `missOk` decides what an operation that is absent from the table does: raise, or return
    a marker.  A case whose result differs between the two is one the table did not cover
    (reported as inconclusive by the driver instead of being compared). -/
def OracleTable.toOracle (t : OracleTable) (missOk : Bool := false) : Oracle where
  call := fun op v =>
    let nv := normV v
    match t.calls.find? (fun e => decide (e.1 = op) && normV e.2.1 == nv) with
    | some e => e.2.2
    | none => if missOk then .ok (.str "<<oracle-miss>>") else .error .other
  eq := fun a b =>
    let na := normV a
    let nb := normV b
    match t.eqs.find? (fun e => normV e.1 == na && normV e.2.1 == nb) with
    | some e => e.2.2
    | none => na == nb
  enumValue := fun c m => (t.enums.find? (fun e => e.1 == c && e.2.1 == m)).map (·.2.2)

def ofExc : Exc → Json
  | .py k => Json.mkObj [("kind", "py"), ("py", nameOf ekNames k)]
  | .notADict c => Json.mkObj [("kind", "notADict"), ("cls", c)]
  | .missingField f c => Json.mkObj [("kind", "MissingField"), ("field", f), ("cls", c)]
  | .invalidFieldValue f v c => Json.mkObj [("kind", "InvalidFieldValue"), ("field", f), ("value", ofV v), ("cls", c)]
  | .extraKeys ks c => Json.mkObj [("kind", "ExtraKeysError"), ("keys", .arr (ks.map ofV).toArray), ("cls", c)]
  | .missingDiscriminator f => Json.mkObj [("kind", "MissingDiscriminatorError"), ("field", f)]
  | .noVariant r t => Json.mkObj [("kind", "SuitableVariantNotFoundError"), ("root", r), ("tag", match t with | some v => ofV v | none => .null)]
  | .unionNoMatch v => Json.mkObj [("kind", "ValueError"), ("value", ofV v)]

def ofR (r : R V) : Json :=
  match r with
  | .ok v => Json.mkObj [("ok", ofV v)]
  | .error e => Json.mkObj [("err", ofExc e)]

end Mashu.Wire
