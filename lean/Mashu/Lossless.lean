/-
  Mashu.Lossless — side conditions and oracle laws of the round-trip theorem (C01).
-/
import Mashu.Frag
namespace Mashu

/-- what a leaf printer returns: a str, or a float (timedelta) -/
def Printed : V → Prop
  | .str _ | .float _ => True
  | _ => False

/-- Laws of the uninterpreted Python side used by the round trip.  `leaf_rt` is the
    statement's exclusion list turned into an assumption: every leaf object of the oracle's
    universe is one whose documented rendering is lossless (no NaN, no regex flags, no named
    or sub-minute timezones, no timedelta beyond float precision).  For the timezone leaf the
    law is *proved* for mashumaro's own parser: `Mashu.Tz.tz_roundtrip`. -/
structure RtLaws (O : Oracle) : Prop where
  print_ok : ∀ k c, ∃ b, O.call (.print k) (.leaf k c) = .ok b ∧ Printed b
  leaf_rt : ∀ k c b, O.call (.print k) (.leaf k c) = .ok b → O.call (.parse k) b = .ok (.leaf k c)
  bool_id : ∀ b, O.call .bool (.bool b) = .ok (.bool b)
  int_id : ∀ i, O.call .int (.int i) = .ok (.int i)
  float_id : ∀ t, O.call .float (.float t) = .ok (.float t)
  str_id : ∀ s, O.call .str (.str s) = .ok (.str s)

/-- serialized form of a non-None value is never None -/
def wnn : Ty → Prop
  | .opt t => wnn t
  | .enum _ ms => ∀ nm ∈ ms, nm.2 ≠ .none
  | _ => True

/-- enum member values are pairwise distinct under Python `==` -/
def EnumOK (O : Oracle) (ms : List (String × V)) : Prop :=
  ∀ m x, ms.lookup m = some x → BasicScalar x ∧ ms.find? (fun nm => O.eq x nm.2) = some (m, x)

/-- Literal constants are scalars, pairwise distinct under Python `==` -/
def LitOK (O : Oracle) (vals : List (V × V)) : Prop :=
  ∀ cw ∈ vals, LitScalar cw.1 ∧ O.eq cw.1 cw.1 = true ∧ unpackLit O vals cw.1 = some cw.1

/- values of the type are hashable (may be set elements / dict keys) -/
mutual
def HashTy : Ty → Prop
  | .none | .bool | .int | .float | .str => True
  | .leaf k => k ≠ .bytearray
  | .enum _ _ => True
  | .lit vals => ∀ cw ∈ vals, LitScalar cw.1
  | .tfix ts => HashTyL ts
  | .tvar t => HashTy t
  | .coll .frozenset _ => True
  | _ => False
def HashTyL : List Ty → Prop
  | [] => True
  | t :: ts => HashTy t ∧ HashTyL ts
end

def outKey (cfg : Cfg) (f : FieldDef) : String :=
  if cfg.serializeByAlias then f.alias.getD f.name else f.name

/- Lossless: the schema (and class configuration) does not discard information. -/
mutual
def Lossless (O : Oracle) : Ty → Prop
  | .any | .none | .bool | .int | .float | .str | .leaf _ => True
  | .enum _ ms => EnumOK O ms
  | .lit vals => LitOK O vals
  | .opt t => Lossless O t ∧ wnn t
  | .union _ => False
  | .coll o t =>
      (o = .list ∨ o = .deque ∨ ((o = .set ∨ o = .frozenset) ∧ HashTy t)) ∧ Lossless O t
  | .map o k t => Lossless O k ∧ Lossless O t ∧ HashTy k ∧ (o = .counter → t = .int) ∧ o ≠ .ddict
  | .chain k t => Lossless O k ∧ Lossless O t ∧ HashTy k
  | .tvar t => Lossless O t
  | .tfix ts => LosslessL O ts
  | .tunp _ _ _ => False
  | .nt _ fs defs _ => LosslessN O fs ∧ defs = [] ∧ (fs.map (·.1)).Nodup
  | .td _ _ _ => False
  | .dc _ cfg fs =>
      LosslessF O fs ∧ (fs.map (·.1.name)).Nodup ∧ (fs.map (fun ft => outKey cfg ft.1)).Nodup
        ∧ cfg.omitNone = false ∧ cfg.omitDefault = false ∧ cfg.allowNotByAlias = false
        ∧ cfg.forbidExtraKeys = false ∧ cfg.sortKeys = false
        ∧ (cfg.serializeByAlias = true ∨ ∀ ft ∈ fs, ft.1.alias = none)
def LosslessL (O : Oracle) : List Ty → Prop
  | [] => True
  | t :: ts => Lossless O t ∧ LosslessL O ts
def LosslessN (O : Oracle) : List (String × Ty) → Prop
  | [] => True
  | (_, t) :: fs => Lossless O t ∧ LosslessN O fs
def LosslessF (O : Oracle) : List (FieldDef × Ty) → Prop
  | [] => True
  | (f, t) :: fs => Lossless O t ∧ wnn t ∧ f.init = true ∧ f.serOmit = false ∧ LosslessF O fs
end

end Mashu
