/-
  Mashu.ConfB — executable conformance check `conf S v` ("v is a value of annotation S, built
  from the canonical classes") used by the reference (spec) mode of unions and by the
  correspondence check of C03.
-/
import Mashu.Ty
namespace Mashu

mutual
def basicB : V → Bool
  | .none | .bool _ | .int _ | .float _ | .str _ => true
  | .coll .list vs => basicBL vs
  | .map .dict kvs => basicBKV kvs
  | _ => false
def basicBL : List V → Bool
  | [] => true
  | v :: vs => basicB v && basicBL vs
def basicBKV : List (V × V) → Bool
  | [] => true
  | (k, v) :: kvs => basicB k && basicB v && basicBKV kvs
end

def isIntV : V → Bool
  | .int _ => true
  | _ => false

mutual
def conf : Ty → V → Bool
  | .any, _ => true
  | .none, v => isNone v
  | .bool, .bool _ => true
  | .int, .int _ => true
  | .float, .float _ => true
  | .str, .str _ => true
  | .leaf k, .leaf k' _ => k == k'
  | .enum cls ms, .enum c m => c == cls && (ms.lookup m).isSome
  | .lit vals, v => vals.any (fun cw => cw.1 == v)
  | .opt t, v => isNone v || conf t v
  | .union ts, v => confAny ts v
  | .coll o t, .coll o' vs => o == o' && vs.all (conf t)
  | .map o k t, .map o' kvs => o == o' && kvs.all (fun kv => conf k kv.1 && (if o == .counter then isIntV kv.2 else conf t kv.2))
  | .chain k t, .coll .chainmap ms =>
      ms.all (fun m => match m with
        | .map .dict kvs => kvs.all (fun kv => conf k kv.1 && conf t kv.2)
        | _ => false)
  | .tvar t, .coll .tuple vs => vs.all (conf t)
  | .tfix ts, .coll .tuple vs => confL ts vs
  | .tunp pre mid post, .coll .tuple vs =>
      pre.length + post.length ≤ vs.length
        && confL pre (vs.take pre.length)
        && ((vs.drop pre.length).take (vs.length - pre.length - post.length)).all (conf mid)
        && confL post (vs.drop (vs.length - post.length))
  | .nt cls fs _ _, .ntuple c vs => c == cls && confN fs vs
  | .td _ req opt, .map .dict kvs =>
      confReq req kvs && kvs.all (fun kv => match kv.1 with
        | .str n => (match (req ++ opt).lookup n with | some _ => true | none => false)
        | _ => false) && confOptKeys opt kvs
  | .dc cls _ fs, .inst c ivs => c == cls && confF fs ivs
  | _, _ => false
def confAny : List Ty → V → Bool
  | [], _ => false
  | t :: ts, v => conf t v || confAny ts v
def confL : List Ty → List V → Bool
  | [], [] => true
  | t :: ts, v :: vs => conf t v && confL ts vs
  | _, _ => false
def confN : List (String × Ty) → List V → Bool
  | [], [] => true
  | (_, t) :: fs, v :: vs => conf t v && confN fs vs
  | _, _ => false
/-- every required key is present (anywhere) with a conforming value -/
def confReq : List (String × Ty) → List (V × V) → Bool
  | [], _ => true
  | (n, t) :: fs, kvs =>
      (match kvs.find? (fun kv => kv.1 == V.str n) with
       | some kv => conf t kv.2
       | none => false) && confReq fs kvs
/-- every optional key that is present has a conforming value -/
def confOptKeys : List (String × Ty) → List (V × V) → Bool
  | [], _ => true
  | (n, t) :: fs, kvs =>
      (match kvs.find? (fun kv => kv.1 == V.str n) with
       | some kv => conf t kv.2
       | none => true) && confOptKeys fs kvs
def confF : List (FieldDef × Ty) → List (String × V) → Bool
  | [], [] => true
  | (f, t) :: fs, (n, v) :: ivs => n == f.name && (conf t v || (isNone v && f.defaultIsNone)) && confF fs ivs
  | _, _ => false
end

end Mashu
