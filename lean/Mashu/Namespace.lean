/-
  Mashu.Namespace — how generated code refers to objects (builder.py `ensure_object_imported`,
  `ensure_module_imported`: `globals.setdefault(name, obj)`; helpers.py `type_name`; common.py
  `clean_id`; `get_type_name_identifier`), property C17.

  An object is identified by a number.  A reference in generated source is a global name (for
  objects registered under an alias: local classes, holders, defaults, functions) or a dotted path
  `module.attr` evaluated at run time against the module registry.
-/
namespace Mashu.Namespace

abbrev Obj := Nat

/-- the globals of one builder: first registration of a name wins (`dict.setdefault`) -/
def setdefault (g : List (String × Obj)) (n : String) (o : Obj) : List (String × Obj) :=
  match g with
  | [] => [(n, o)]
  | (m, p) :: rest => if m = n then (m, p) :: rest else (m, p) :: setdefault rest n o

def lookup (g : List (String × Obj)) (n : String) : Option Obj :=
  match g with
  | [] => none
  | (m, p) :: rest => if m = n then some p else lookup rest n

/-- replay of a sequence of registrations -/
def register (g : List (String × Obj)) (regs : List (String × Obj)) : List (String × Obj) :=
  regs.foldl (fun acc r => setdefault acc r.1 r.2) g

/-- `clean_id` (on the NFKC-normalized name): `re.sub(r"\W|^(?=\d)", "_", value)`, then every
    character that cannot be part of an identifier becomes `_`.  `isWord` is Python's `\w`
    (Unicode aware), `isIdCont c` is `("_" + c).isidentifier()`. -/
def cleanId (isWord : Char → Bool) (isDigit : Char → Bool) (isIdCont : Char → Bool) (s : List Char) : List Char :=
  match s with
  | [] => ['_']
  | c :: _ =>
      let body := s.map (fun ch => if isWord ch then ch else '_')
      let v := if isDigit c then '_' :: body else body
      v.map (fun ch => if isIdCont ch then ch else '_')

/-- a run-time module registry: dotted path ↦ what the attribute chain evaluates to -/
abbrev Modules := List (String × Obj)

/-- how the builder refers to a type -/
inductive Ref
  | alias (name : String)       -- a global name bound by ensure_object_imported
  | dotted (path : String)      -- `package.module.Name`, resolved through the imported module
  deriving Repr, DecidableEq

def resolve (g : List (String × Obj)) (mods : Modules) : Ref → Option Obj
  | .alias n => lookup g n
  | .dotted p => lookup mods p

end Mashu.Namespace
