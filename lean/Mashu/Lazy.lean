/-
  Mashu.Lazy — when a method is compiled: eagerly at class creation, lazily on the first call
  (`lazy_compilation`), or postponed because a forward reference cannot be evaluated yet
  (builder.py `_add_unpack_method_lines` / `_add_pack_method_lines`, `_add_*_method_lines_lazy`,
  `_add_*_method_with_dialect_lines`), property C14.

  One class, one method slot.  A method body is either the real code, identified by what it was
  compiled from, or the lazy stub: "construct a CodeBuilder with the baked-in arguments, compile,
  then call the method again, forwarding the flags".  The condition under which a stub is
  emitted, the arguments the stub bakes in and whether it forwards the en/decoder are tables
  extracted from the source.
-/
namespace Mashu.Lazy

/-- what the main method's CodeBuilder is constructed with -/
structure Params where
  fmt : String                    -- format_name
  coder : Option String           -- decoder / encoder of the mixin
  coderKwargs : Option String     -- encoder_kwargs (packers only)
  defaultDialect : Option Nat     -- the mixin's format dialect
  deriving DecidableEq, Repr, Inhabited

/-- the class -/
structure Cls where
  lazyCompilation : Bool          -- Config.lazy_compilation
  cfgAllowPostponed : Bool        -- Config.allow_postponed_evaluation
  support : Bool                  -- ADD_DIALECT_SUPPORT
  unpack : Bool                   -- direction of the slot
  p : Params
  deriving Repr, Inhabited

/-- what `_add_*_method_lines` can see when it decides -/
structure Ctx where
  lazyCompilation : Bool
  allowPostponed : Bool           -- the CodeBuilder argument
  nailed : Bool
  dialect : Option Nat            -- the CodeBuilder's dialect
  deriving Repr

/-- one conjunct of the stub condition, as source text -/
def evalCond (c : Ctx) : String → Option Bool
  | "config.lazy_compilation" => some c.lazyCompilation
  | "self.allow_postponed_evaluation" => some c.allowPostponed
  | "self.is_nailed" => some c.nailed
  | "self.dialect is None" => some c.dialect.isNone
  | _ => none

/-- one disjunct of the re-raise condition under `except UnresolvedTypeReferenceError` -/
def evalDisj (c : Ctx) (cfgAllowPostponed : Bool) : String → Option Bool
  | "not self.allow_postponed_evaluation" => some (!c.allowPostponed)
  | "not config.allow_postponed_evaluation" => some (!cfgAllowPostponed)
  | "self.dialect is not None" => some c.dialect.isSome
  | _ => none

def reraises (disj : List String) (c : Ctx) (cfgAllowPostponed : Bool) : Bool :=
  disj.any (fun s => evalDisj c cfgAllowPostponed s == some true)

/-- all conjuncts hold (a conjunct the model does not know makes the condition unknown = never lazy
    in the model, which then disagrees with the code and is reported) -/
def condHolds (conds : List String) (c : Ctx) : Bool :=
  conds.all (fun s => evalCond c s == some true)

/-- the arguments a stub bakes into its `CodeBuilder(...)` call -/
def bake (kwargs : List String) (unpack : Bool) (p : Params) : Params :=
  { fmt := if kwargs.contains "format_name" then p.fmt else "dict",
    coder := if kwargs.contains (if unpack then "decoder" else "encoder") then p.coder else none,
    coderKwargs := if unpack || kwargs.contains "encoder_kwargs" then p.coderKwargs else none,
    defaultDialect := if kwargs.contains "default_dialect" then p.defaultDialect else none }

inductive Body
  | real (p : Params) (dialect : Option Nat)
  | stub (p : Params)
  deriving DecidableEq, Repr, Inhabited

/-- the tables extracted from the source -/
structure Tables where
  condsUnpack : List String      -- conjuncts of the `if` that selects the lazy body
  condsPack : List String
  reraiseUnpack : List String    -- disjuncts of the `if` under `except UnresolvedTypeReferenceError` that re-raises
  reraisePack : List String
  kwargsUnpack : List String     -- keyword arguments baked into the unpack stub
  kwargsPack : List String
  forwardCoder : Bool            -- the stub re-dispatches with decoder=decoder / encoder=encoder
  stubAllowPostponed : Bool      -- the literal value of allow_postponed_evaluation= in the stub (False)
  deriving Repr, DecidableEq

/-- outcome of one `add_*_method()` -/
inductive Compiled
  | body (b : Body)
  | unresolved                   -- UnresolvedTypeReferenceError
  deriving Repr

def compile (T : Tables) (k : Cls) (allowPostponed : Bool) (dialect : Option Nat) (resolvable : Bool) (p : Params) : Compiled :=
  let ctx : Ctx := { lazyCompilation := k.lazyCompilation, allowPostponed := allowPostponed, nailed := true, dialect := dialect }
  let kw := if k.unpack then T.kwargsUnpack else T.kwargsPack
  if condHolds (if k.unpack then T.condsUnpack else T.condsPack) ctx then .body (.stub (bake kw k.unpack p))
  else if !resolvable then
    (if reraises (if k.unpack then T.reraiseUnpack else T.reraisePack) ctx k.cfgAllowPostponed then .unresolved
     else .body (.stub (bake kw k.unpack p)))
  else .body (.real p dialect)

structure St where
  mp : Params                   -- parameters of the builder that emitted the installed main method
  main : Body                   -- the body of its `dialect is None` branch (the whole body without ADD_DIALECT_SUPPORT)
  cache : List (Nat × Body)
  resolvable : Bool
  deriving Repr

structure Args where
  dialect : Option Nat
  coder : Option String           -- a decoder/encoder passed by the caller
  deriving Repr, DecidableEq

inductive Out
  | ran (fmt : String) (defaultDialect : Option Nat) (coderKwargs : Option String) (dialect : Option Nat) (coder : Option String)
  | unresolved
  | typeError                    -- unexpected keyword argument 'dialect'
  | diverged                     -- RecursionError
  deriving DecidableEq, Repr, Inhabited

def lookup (l : List (Nat × Body)) (d : Nat) : Option Body :=
  match l with
  | [] => none
  | (a, b) :: t => if a = d then some b else lookup t d

/-- what one dispatch of `cls.method(...)` leads to -/
inductive Next
  | out (st : St) (o : Out)
  | again (st : St) (a : Args)      -- the method is called again (stub re-dispatch)
  deriving Repr

/-- the dialect method for `d`: fetched from the cache, or compiled (format_name and default_dialect
    are handed to the dialect builder; the main method applies the coder) and stored -/
def dialectMethod (T : Tables) (k : Cls) (st : St) (d : Nat) : Option (St × Body) :=
  match lookup st.cache d with
  | some b => some (st, b)
  | none =>
      match compile T k true (some d) st.resolvable
          { fmt := st.mp.fmt, coder := none, coderKwargs := none, defaultDialect := st.mp.defaultDialect } with
      | .unresolved => none
      | .body b => some ({ st with cache := (d, b) :: st.cache }, b)

/-- the stub body: `CodeBuilder(cls, allow_postponed_evaluation=False, <baked>).add_*_method()`
    (a new main method, emitted by a builder with the baked parameters) then
    `return cls.method(<flags>)` -/
def runStub (T : Tables) (k : Cls) (st : St) (p : Params) (a : Args) : Next :=
  match compile T k T.stubAllowPostponed none st.resolvable p with
  | .unresolved => .out st .unresolved
  | .body b => .again { st with mp := p, main := b } { a with coder := if T.forwardCoder then a.coder else none }

/-- the generated main method:
      def method(..., dialect=None):
          if dialect is None:  <stub or real body>
          else:                <fetch or compile the dialect method, call it>
    (without ADD_DIALECT_SUPPORT only the first body exists) -/
def stepMain (T : Tables) (k : Cls) (st : St) (a0 : Args) : Next :=
  -- the signature is the same for the stub and the real method: the unpacker always has a
  -- `dialect` keyword (ignored without ADD_DIALECT_SUPPORT), the packer only with the option
  if a0.dialect.isSome && !k.support && !k.unpack then .out st .typeError else
  let a : Args := { a0 with dialect := if k.support then a0.dialect else none }
  match a.dialect with
  | none =>
      match st.main with
      | .stub p => runStub T k st p a
      | .real p _ => .out st (.ran p.fmt p.defaultDialect p.coderKwargs none (a.coder <|> p.coder))
  | some d =>
      -- the `else:` branch never looks at the body of the first branch
      match dialectMethod T k st d with
      | none => .out st .unresolved
      | some (st', .real q dd) => .out st' (.ran q.fmt q.defaultDialect st.mp.coderKwargs dd (a.coder <|> st.mp.coder))
      | some (st', .stub q) => runStub T k st' q a   -- a stub inside a dialect method

/-- calling `cls.method(...)`: one unit of fuel per dispatch -/
def call (T : Tables) (k : Cls) : Nat → St → Args → St × Out
  | 0, st, _ => (st, .diverged)
  | fuel + 1, st, a =>
    match stepMain T k st a with
    | .out st' o => (st', o)
    | .again st' a' => call T k fuel st' a'

inductive Event
  | call (a : Args)
  | resolve                       -- the forward references become resolvable (the missing class is defined)
  deriving Repr

/-- class creation: `__init_subclass__` → `CodeBuilder(cls, <params>).add_*_method()` -/
def define (T : Tables) (k : Cls) (resolvable : Bool) : Option St :=
  match compile T k true none resolvable k.p with
  | .unresolved => none           -- the class statement raises
  | .body b => some { mp := k.p, main := b, cache := [], resolvable := resolvable }

def run (T : Tables) (k : Cls) (fuel : Nat) : St → List Event → List Out
  | _, [] => []
  | st, .resolve :: es => run T k fuel { st with resolvable := true } es
  | st, .call a :: es => let r := call T k fuel st a; r.2 :: run T k fuel r.1 es

/-- the specification: what an eagerly compiled class with resolvable references answers -/
def specOut (k : Cls) (resolvable : Bool) (a : Args) : Out :=
  if a.dialect.isSome && !k.support && !k.unpack then .typeError
  else if !resolvable then .unresolved
  else .ran k.p.fmt k.p.defaultDialect k.p.coderKwargs (if k.support then a.dialect else none) (a.coder <|> k.p.coder)

def runSpec (k : Cls) : Bool → List Event → List Out
  | _, [] => []
  | _, .resolve :: es => runSpec k true es
  | r, .call a :: es => specOut k r a :: runSpec k r es

/-! ### threads making the first call at once -/

/-- a thread inside `cls.method()`; reading the class attribute, compiling + `setattr`, and calling
    are the atomic steps (attribute reads and writes are atomic under the GIL; compilation works on
    thread-local objects) -/
inductive Th
  | start
  | inStub (p : Params)           -- read the attribute: it was the stub
  | redispatch                    -- compiled and installed, about to call again
  | done (o : Out)
  deriving DecidableEq, Repr, Inhabited

structure G where
  main : Body
  threads : List Th
  deriving Repr

def thStep (T : Tables) (k : Cls) (main : Body) (t : Th) : Body × Th :=
  match t with
  | .start | .redispatch =>
      (match main with
       | .stub p => (main, .inStub p)
       | .real p _ => (main, .done (.ran p.fmt p.defaultDialect p.coderKwargs none p.coder)))
  | .inStub p =>
      (match compile T k T.stubAllowPostponed none true p with
       | .unresolved => (main, .done .unresolved)
       | .body b => (b, .redispatch))
  | .done o => (main, .done o)

def setNth {α} : List α → Nat → α → List α
  | [], _, _ => []
  | _ :: t, 0, a => a :: t
  | x :: t, n + 1, a => x :: setNth t n a

/-- the scheduler picks thread `i` -/
def gStep (T : Tables) (k : Cls) (g : G) (i : Nat) : G :=
  match g.threads[i]? with
  | none => g
  | some t => let r := thStep T k g.main t; { main := r.1, threads := setNth g.threads i r.2 }

def gRun (T : Tables) (k : Cls) (g : G) (sched : List Nat) : G := sched.foldl (gStep T k) g

end Mashu.Lazy
