/-
  Mashu.Frag — the fragment of the type grammar covered by the core theorems
  (C01 round trip, C02 basic form, C03 well-typedness), and the oracle laws they assume.
-/
import Mashu.Lemmas.Basic
namespace Mashu

/-- constants a `Literal[...]` may list in the fragment: None / bool / int / str -/
def LitScalar : V → Prop
  | .none | .bool _ | .int _ | .str _ => True
  | _ => False

/- The fragment: no union (see Props/C11 for unions), no unpacked tuple (see
   `tuple_slices_partition`), no TypedDict; literal/enum constants are basic scalars;
   dataclass field names are pairwise distinct. -/
mutual
def Frag : Ty → Prop
  | .any | .none | .bool | .int | .float | .str | .leaf _ => True
  | .enum _ ms => ∀ nm ∈ ms, BasicScalar nm.2
  | .lit vals => ∀ cw ∈ vals, LitScalar cw.1
  | .opt t => Frag t
  | .union _ => False
  | .coll o t => (o = .list ∨ o = .set ∨ o = .frozenset ∨ o = .deque) ∧ Frag t
  | .map o k t => Frag k ∧ Frag t ∧ (o = .counter → t = .int)
  | .chain k t => Frag k ∧ Frag t
  | .tvar t => Frag t
  | .tfix ts => FragL ts
  | .tunp _ _ _ => False
  | .nt _ fs _ _ => FragN fs
  | .td _ _ _ => False
  | .dc _ _ fs => FragF fs ∧ (fs.map (·.1.name)).Nodup
def FragL : List Ty → Prop
  | [] => True
  | t :: ts => Frag t ∧ FragL ts
def FragN : List (String × Ty) → Prop
  | [] => True
  | (_, t) :: fs => Frag t ∧ FragN fs
def FragF : List (FieldDef × Ty) → Prop
  | [] => True
  | (_, t) :: fs => Frag t ∧ FragF fs
end

/-- the default dialect: nothing passes through unconverted, every collection is copied -/
def Cx.plain (cx : Cx) : Prop := cx.passLeaves = [] ∧ cx.noCopyList = false ∧ cx.noCopyDict = false

/-- What the theorems assume of the uninterpreted Python side when *serializing*. -/
structure PrintLaws (O : Oracle) : Prop where
  /-- a leaf printer is total on objects of its kind and yields a basic scalar
      (str; float for timedelta) -/
  print_ok : ∀ k c, ∃ b, O.call (.print k) (.leaf k c) = .ok b ∧ BasicScalar b
  /-- Python `==` is reflexive on the constants a Literal may list -/
  eq_refl : ∀ v, LitScalar v → O.eq v v = true

end Mashu
