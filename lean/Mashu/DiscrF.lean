/-
  Mashu.DiscrF — class-level discriminators across FORMATS (from_dict / from_json /
  from_msgpack of one mixin class).  Every format has its own compiled method per class
  (`__mashumaro_from_dict__`, `__mashumaro_from_dict_json__`, …) and the generated dispatcher
  calls `variants[tag].<method of this format>(value)` by ATTRIBUTE lookup: a class without a
  method of its own silently runs the one inherited from its parent, with `cls` = the subclass.
  Source: unpack.py `DiscriminatedUnionUnpackerBuilder._add_body`, `_add_build_variant_unpacker`,
  `SubtypeUnpackerBuilder._get_variants_attr`.
-/
import Mashu.Discr
namespace Mashu.DiscrF
open Mashu.Discr

abbrev Fmt := Nat     -- 0 = dict (compiled when the class is defined), others on demand

inductive Event
  | define (c : Cls)
  | decode (fmt : Fmt) (root : Nat) (tag : Option String)
  deriving Repr

/-- `inst c o`: an instance of class `c` was built by the method compiled for class `o` -/
inductive Outcome
  | inst (cls : Nat) (builtBy : Nat)
  | missingDiscriminator
  | noVariant
  deriving Repr, DecidableEq

structure State where
  classes : List Cls := []
  registry : List (Fmt × Nat × String × Nat) := []   -- (registry key, root, tag) ↦ class
  compiled : List (Nat × Fmt) := []                   -- class has its OWN method for the format
  deriving Repr

/-- `shared = true`: one registry for all formats (the implementation before fix F19) -/
def regKey (shared : Bool) (f : Fmt) : Fmt := if shared then 0 else f

def lookup (reg : List (Fmt × Nat × String × Nat)) (k : Fmt) (root : Nat) (t : String) : Option Nat :=
  (reg.find? (fun e => e.1 == k && e.2.1 == root && e.2.2.1 == t)).map (·.2.2.2)

def hasOwn (comp : List (Nat × Fmt)) (c : Nat) (f : Fmt) : Bool := comp.any (fun e => e.1 == c && e.2 == f)

/-- attribute lookup of the format's method on class `c`: the class itself, else its ancestors -/
def methodOwner (cs : List Cls) (comp : List (Nat × Fmt)) (f : Fmt) : Nat → Nat → Option Nat
  | 0, _ => none
  | fuel + 1, c =>
      if hasOwn comp c f then some c
      else match findCls cs c with
        | none => none
        | some k => match k.parent with
          | none => none
          | some p => methodOwner cs comp f fuel p

/-- the rescan on a miss (KeyError or AttributeError): every variant with a tag of its own is
    registered and gets a method of its own for THIS format -/
def tagged (cs : List Cls) (root : Nat) (m : Mode) : List Cls := (eligible cs root m).filter (fun c => c.tag.isSome)

def refillReg (st : State) (k : Fmt) (root : Nat) (m : Mode) : List (Fmt × Nat × String × Nat) :=
  ((tagged st.classes root m).filterMap (fun c => c.tag.map (fun t => (k, root, t, c.id)))).reverse ++ st.registry

def refillComp (st : State) (f : Fmt) (root : Nat) (m : Mode) : List (Nat × Fmt) :=
  (tagged st.classes root m).map (fun c => (c.id, f)) ++ st.compiled

def rescan (shared : Bool) (m : Mode) (st : State) (f : Fmt) (root : Nat) (t : String) : State × Option Outcome :=
  let reg := refillReg st (regKey shared f) root m
  let comp := refillComp st f root m
  let st' := { st with registry := reg, compiled := comp }
  match lookup reg (regKey shared f) root t with
  | some c =>
      match methodOwner st.classes comp f (st.classes.length + 1) c with
      | some o => (st', some (.inst c o))
      | none => (st', some .noVariant)      -- unreachable (see `rescan_own`)
  | none => (st', some .noVariant)

def step (shared : Bool) (m : Mode) (st : State) : Event → State × Option Outcome
  | .define c => ({ st with classes := st.classes ++ [c], compiled := (c.id, 0) :: st.compiled }, none)
  | .decode _ _ none => (st, some .missingDiscriminator)
  | .decode f root (some t) =>
      match lookup st.registry (regKey shared f) root t with
      | some c =>
          match methodOwner st.classes st.compiled f (st.classes.length + 1) c with
          | some o => (st, some (.inst c o))            -- fast path: the call succeeds
          | none => rescan shared m st f root t          -- AttributeError
      | none => rescan shared m st f root t              -- KeyError

def run (shared : Bool) (m : Mode) : State → List Event → List Outcome
  | _, [] => []
  | st, e :: es =>
      let r := step shared m st e
      match r.2 with
      | some o => o :: run shared m r.1 es
      | none => run shared m r.1 es

/-- state reached after a history -/
def exec (shared : Bool) (m : Mode) : State → List Event → State
  | st, [] => st
  | st, e :: es => exec shared m (step shared m st e).1 es

end Mashu.DiscrF
