/-
  Mashu.Val — Python values as the model sees them.

  `V` is used both for domain values (dataclass instances, datetimes, enums, sets, …) and for
  the "basic form" (None/bool/int/float/str/list/dict).  Stdlib leaf objects are opaque:
  `leaf k c` is "the object of kind k whose repr is c"; everything the model does with them
  goes through the `Oracle`.
-/
namespace Mashu

inductive Leaf
  | datetime | date | time | timedelta | timezone | zoneinfo | uuid | decimal | fraction
  | ipv4addr | ipv6addr | ipv4net | ipv6net | ipv4if | ipv6if
  | path | pattern | bytes | bytearray
  deriving DecidableEq, Repr, Inhabited

/-- Collection classes with list-like construction from an iterable. -/
inductive CollO
  | list | set | frozenset | deque | tuple | chainmap
  deriving DecidableEq, Repr, Inhabited

/-- Mapping classes. -/
inductive MapO
  | dict | odict | counter | mproxy | ddict
  deriving DecidableEq, Repr, Inhabited

instance : BEq MapO := ⟨fun a b => decide (a = b)⟩
instance : BEq CollO := ⟨fun a b => decide (a = b)⟩
instance : BEq Leaf := ⟨fun a b => decide (a = b)⟩

inductive V
  | none
  | bool (b : Bool)
  | int (i : Int)
  | float (tok : String)            -- repr token; never interpreted numerically by the model
  | str (s : String)
  | leaf (k : Leaf) (c : String)
  | enum (cls : String) (m : String)
  | coll (o : CollO) (vs : List V)
  | map (o : MapO) (kvs : List (V × V))
  | ntuple (cls : String) (vs : List V)
  | inst (cls : String) (fs : List (String × V))
  | tagged (marker : String) (v : V)   -- result of a user supplied (de)serialization function
  deriving Repr, Inhabited

/-- Kinds of Python exceptions the model distinguishes (only where some handler in the
    generated code is selective about them). -/
inductive EK
  | valueError | typeError | keyError | indexError | attributeError | lookupError | other
  deriving DecidableEq, Repr, Inhabited

/-- Exceptions that can leave a (de)serializer. -/
inductive Exc
  | py (k : EK)                                         -- a raw Python exception
  | notADict (cls : String)                              -- ValueError("Argument for … should be a dict instance")
  | missingField (f : String) (cls : String)
  | invalidFieldValue (f : String) (value : V) (cls : String)
  | extraKeys (ks : List V) (cls : String)
  | missingDiscriminator (f : String)
  | noVariant (root : String) (tag : Option V)           -- SuitableVariantNotFoundError
  | unionNoMatch (value : V)                             -- codec path: `raise ValueError(value)`
  deriving Repr, Inhabited

/-- The Python class hierarchy of `Exc` as far as `except` clauses in generated code care. -/
def Exc.kind : Exc → EK
  | .py k => k
  | .notADict _ => .valueError
  | .missingField _ _ => .lookupError
  | .invalidFieldValue _ _ _ => .valueError
  | .extraKeys _ _ => .valueError
  | .missingDiscriminator _ => .lookupError
  | .noVariant _ _ => .valueError
  | .unionNoMatch _ => .valueError

/-- `except KeyError` also does not catch LookupError subclasses that are not KeyError;
    `except IndexError` likewise.  Only exact kinds are caught by the selective handlers. -/
def Exc.isKind (e : Exc) (k : EK) : Bool := e.kind == k

abbrev R := Except Exc

def isNone : V → Bool
  | .none => true
  | _ => false

def raisePy {α} (k : EK) : R α := .error (.py k)

/-! ### Structural equality on `V` (Python `==` restricted to identical representation).
    Cross-type equalities (`1 == True == 1.0`) are supplied by the oracle. -/

mutual
def V.beq : V → V → Bool
  | .none, .none => true
  | .bool a, .bool b => a == b
  | .int a, .int b => a == b
  | .float a, .float b => a == b
  | .str a, .str b => a == b
  | .leaf k c, .leaf k' c' => k == k' && c == c'
  | .enum c m, .enum c' m' => c == c' && m == m'
  | .coll o vs, .coll o' vs' => o == o' && V.beqL vs vs'
  | .map o kvs, .map o' kvs' => o == o' && V.beqKV kvs kvs'
  | .ntuple c vs, .ntuple c' vs' => c == c' && V.beqL vs vs'
  | .inst c fs, .inst c' fs' => c == c' && V.beqF fs fs'
  | .tagged m v, .tagged m' v' => m == m' && V.beq v v'
  | _, _ => false
def V.beqL : List V → List V → Bool
  | [], [] => true
  | a :: as, b :: bs => V.beq a b && V.beqL as bs
  | _, _ => false
def V.beqKV : List (V × V) → List (V × V) → Bool
  | [], [] => true
  | (a, b) :: as, (c, d) :: bs => V.beq a c && V.beq b d && V.beqKV as bs
  | _, _ => false
def V.beqF : List (String × V) → List (String × V) → Bool
  | [], [] => true
  | (a, b) :: as, (c, d) :: bs => a == c && V.beq b d && V.beqF as bs
  | _, _ => false
end

instance : BEq V := ⟨V.beq⟩

/-! ### Python duck typing used by generated expressions -/

/-- `for x in v` -/
def chainKeys (maps : List V) : List V :=
  maps.reverse.foldl (fun acc m =>
    match m with
    | .map _ kvs => kvs.foldl (fun acc kv => if acc.any (fun k => k == kv.1) then acc else acc ++ [kv.1]) acc
    | _ => acc) []

def pyIter : V → R (List V)
  | .coll .chainmap maps => .ok (chainKeys maps)
  | .coll _ vs => .ok vs
  | .ntuple _ vs => .ok vs
  | .map _ kvs => .ok (kvs.map (·.1))
  | .str s => .ok (s.toList.map (fun c => V.str (String.singleton c)))
  | _ => raisePy .typeError

/-- `v.items()` -/
def chainLookup (maps : List V) (k : V) : Option V :=
  maps.findSome? (fun m => match m with
    | .map _ kvs => (kvs.find? (fun kv => kv.1 == k)).map (·.2)
    | _ => none)

def pyItems : V → R (List (V × V))
  | .map _ kvs => .ok kvs
  | .coll .chainmap maps => .ok ((chainKeys maps).filterMap (fun k => (chainLookup maps k).map (fun v => (k, v))))
  | _ => raisePy .attributeError

/-- Is the object hashable (usable as set element / dict key)?  Dataclass instances are
    treated as unhashable (eq=True without frozen). -/
def pyHashable : V → Bool
  | .none | .bool _ | .int _ | .float _ | .str _ | .enum _ _ => true
  | .leaf k _ => k != .bytearray
  | .coll .tuple vs => pyHashableL vs
  | .coll .frozenset _ => true
  | .coll _ _ => false
  | .ntuple _ vs => pyHashableL vs
  | .map _ _ => false
  | .inst _ _ => false
  | .tagged _ _ => true
where pyHashableL : List V → Bool
  | [] => true
  | v :: vs => pyHashable v && pyHashableL vs

/-- Sequence length for objects supporting integer indexing. -/
def pySeq : V → Option (List V)
  | .coll .list vs => some vs
  | .coll .tuple vs => some vs
  | .coll .deque vs => some vs
  | .ntuple _ vs => some vs
  | .str s => some (s.toList.map (fun c => V.str (String.singleton c)))
  | _ => none

/-- `v[i]` for an integer literal index `i` (negative indexes count from the end).
    Lookup in a mapping uses structural equality on the integer key. -/
def pyIndex (v : V) (i : Int) : R V :=
  match v with
  | .map o kvs =>
      match kvs.find? (fun kv => kv.1 == V.int i) with
      | some kv => .ok kv.2
      | none => if o == .counter then .ok (.int 0) else raisePy .keyError   -- Counter.__missing__
  | _ =>
    match pySeq v with
    | none => raisePy .typeError
    | some vs =>
      let n : Int := vs.length
      let j := if i < 0 then i + n else i
      if j < 0 ∨ j ≥ n then raisePy .indexError
      else match vs[j.toNat]? with
        | some x => .ok x
        | none => raisePy .indexError

/-- Python slice `v[a:b]` with optional (possibly negative) bounds on a sequence. -/
def pySlice (v : V) (a : Int) (b : Option Int) : R (List V) :=
  match v with
  | .coll .deque _ => raisePy .typeError      -- deque does not support slicing
  | _ =>
  match pySeq v with
  | none => match v with
      | .map _ _ => raisePy .keyError          -- dict[slice] → TypeError unhashable slice (3.12: KeyError?) see driver note
      | _ => raisePy .typeError
  | some vs =>
    let n : Int := vs.length
    let clamp (x : Int) : Int :=
      let y := if x < 0 then x + n else x
      if y < 0 then 0 else if y > n then n else y
    let lo := clamp a
    let hi := match b with | none => n | some b => clamp b
    .ok ((vs.drop lo.toNat).take (hi - lo).toNat)

/-- `v[key]` for a string key (TypedDict, named tuple as dict, discriminator). -/
def pyGetItemStr (v : V) (key : String) : R V :=
  match v with
  | .coll .chainmap maps =>
      match chainLookup maps (V.str key) with
      | some x => .ok x
      | none => raisePy .keyError
  | .map o kvs =>
      match kvs.find? (fun kv => kv.1 == V.str key) with
      | some kv => .ok kv.2
      | none => if o == .counter then .ok (.int 0) else raisePy .keyError
  | .coll .list _ | .coll .tuple _ | .coll .deque _ | .ntuple _ _ | .str _ => raisePy .typeError
  | _ => raisePy .typeError

/-- `v.get(key, MISSING)`; `none` = MISSING. -/
def pyGetStr (v : V) (key : String) : R (Option V) :=
  match v with
  | .coll .chainmap maps => .ok (chainLookup maps (V.str key))
  | .map _ kvs => .ok ((kvs.find? (fun kv => kv.1 == V.str key)).map (·.2))
  | _ => raisePy .attributeError

end Mashu
