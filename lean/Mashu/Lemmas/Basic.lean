/-
  Helper lemmas shared by the property files (list/mapM facts, Basic, lookups, indexes).
-/
import Mashu.Conf
namespace Mashu

@[simp] theorem R.bind_ok {α β} (a : α) (f : α → R β) : (Except.ok a >>= f) = f a := rfl
@[simp] theorem R.bind_err {α β} (e : Exc) (f : α → R β) : ((Except.error e : R α) >>= f) = Except.error e := rfl
@[simp] theorem R.pure_eq {α} (a : α) : (pure a : R α) = Except.ok a := rfl
@[simp] theorem R.map_ok {α β} (a : α) (f : α → β) : (f <$> (Except.ok a : R α)) = Except.ok (f a) := rfl

theorem mapM_ok {α β} (f : α → R β) (P : β → Prop) (xs : List α)
    (h : ∀ x ∈ xs, ∃ b, f x = .ok b ∧ P b) : ∃ bs, xs.mapM f = .ok bs ∧ ∀ b ∈ bs, P b := by
  induction xs with
  | nil => exact ⟨[], by simp [List.mapM_nil, pure, Except.pure], by simp⟩
  | cons x xs ih =>
    obtain ⟨b, hb, pb⟩ := h x (by simp)
    obtain ⟨bs, hbs, pbs⟩ := ih (fun y hy => h y (by simp [hy]))
    refine ⟨b :: bs, ?_, ?_⟩
    · simp [List.mapM_cons, hb, hbs, bind, Except.bind, pure, Except.pure]
    · intro y hy
      cases hy with
      | head => exact pb
      | tail _ h' => exact pbs y h'

theorem kvM_ok (fk fv : V → R V) (P Q : V → Prop) (kv : V × V)
    (hk : ∃ a, fk kv.1 = .ok a ∧ P a) (hv : ∃ b, fv kv.2 = .ok b ∧ Q b) :
    ∃ r, kvM fk fv kv = .ok r ∧ P r.1 ∧ Q r.2 := by
  obtain ⟨a, ha, pa⟩ := hk
  obtain ⟨b, hb, qb⟩ := hv
  exact ⟨(a, b), by simp only [kvM, ha, hb, R.bind_ok, R.pure_eq], pa, qb⟩

theorem itemsM_ok (o : MapO) (f : V × V → R (V × V)) (P : V × V → Prop) (kvs : List (V × V))
    (h : ∀ kv ∈ kvs, ∃ r, f kv = .ok r ∧ P r) :
    ∃ r, itemsM f (.map o kvs) = .ok (.map .dict r) ∧ ∀ x ∈ r, P x := by
  obtain ⟨r, hr, pr⟩ := mapM_ok f P kvs h
  exact ⟨r, by simp only [itemsM, pyItems, R.bind_ok, hr, R.pure_eq], pr⟩

theorem pack_const (O : Oracle) (cx : Cx) (fx : Fx) (t : Ty) (h : t.constPack = true) (a b : V) :
    pack O cx fx t a = pack O cx fx t b := by
  cases t with
  | tfix ts =>
    cases ts with
    | nil => rw [pack, pack, packIdx, packIdx]
    | cons _ _ => simp [Ty.constPack] at h
  | _ => simp [Ty.constPack] at h

theorem unpack_const (O : Oracle) (cx : Cx) (fx : Fx) (t : Ty) (h : t.constUnpack = true) (a b : V) :
    unpack O cx fx t a = unpack O cx fx t b := by
  cases t with
  | tfix ts =>
    cases ts with
    | nil => rw [unpack, unpack, unpackIdx, unpackIdx]
    | cons _ _ => simp [Ty.constUnpack] at h
  | none => rw [unpack, unpack]
  | _ => simp [Ty.constUnpack] at h

theorem basicL_of {vs : List V} (h : ∀ v ∈ vs, Basic v) : BasicL vs := by
  induction vs with
  | nil => simp [BasicL]
  | cons v vs ih =>
    simp only [BasicL]
    exact ⟨h v (by simp), ih (fun x hx => h x (by simp [hx]))⟩

theorem basicKV_of {kvs : List (V × V)} (h : ∀ kv ∈ kvs, Basic kv.1 ∧ Basic kv.2) : BasicKV kvs := by
  induction kvs with
  | nil => simp [BasicKV]
  | cons kv kvs ih =>
    obtain ⟨k, v⟩ := kv
    simp only [BasicKV]
    exact ⟨(h (k, v) (by simp)).1, (h (k, v) (by simp)).2, ih (fun x hx => h x (by simp [hx]))⟩

theorem basicL_mem {vs : List V} (h : BasicL vs) : ∀ v ∈ vs, Basic v := by
  induction vs with
  | nil => simp
  | cons v vs ih =>
    simp only [BasicL] at h
    intro x hx
    cases hx with
    | head => exact h.1
    | tail _ h' => exact ih h.2 x h'

theorem basicKV_mem {kvs : List (V × V)} (h : BasicKV kvs) : ∀ kv ∈ kvs, Basic kv.1 ∧ Basic kv.2 := by
  induction kvs with
  | nil => simp
  | cons kv kvs ih =>
    obtain ⟨k, v⟩ := kv
    simp only [BasicKV] at h
    intro x hx
    cases hx with
    | head => exact ⟨h.1, h.2.1⟩
    | tail _ h' => exact ih h.2.2 x h'

theorem lookup_mem {α} (ms : List (String × α)) (m : String) (x : α) (h : ms.lookup m = some x) :
    (m, x) ∈ ms := by
  induction ms with
  | nil => simp [List.lookup] at h
  | cons p ms ih =>
    obtain ⟨a, b⟩ := p
    simp only [List.lookup] at h
    split at h
    · rename_i heq
      have : m = a := by simpa using heq
      cases h
      simp [this]
    · exact List.mem_cons_of_mem _ (ih h)

end Mashu
