/-
  Lemmas for the round-trip theorem.
-/
import Mashu.Lossless
namespace Mashu

theorem mapM_rt {α β} (f : α → R β) (g : β → R α) (xs : List α)
    (h : ∀ x ∈ xs, ∃ b, f x = .ok b ∧ g b = .ok x) :
    ∃ bs, xs.mapM f = .ok bs ∧ bs.mapM g = .ok xs := by
  induction xs with
  | nil => exact ⟨[], by simp [List.mapM_nil, pure, Except.pure], by simp [List.mapM_nil, pure, Except.pure]⟩
  | cons x xs ih =>
    obtain ⟨b, hb, gb⟩ := h x (by simp)
    obtain ⟨bs, hbs, gbs⟩ := ih (fun y hy => h y (by simp [hy]))
    refine ⟨b :: bs, ?_, ?_⟩
    · simp [List.mapM_cons, hb, hbs, bind, Except.bind, pure, Except.pure]
    · simp [List.mapM_cons, gb, gbs, bind, Except.bind, pure, Except.pure]

theorem pack_opt_ne (O : Oracle) (cx : Cx) (fx : Fx) (t : Ty) (v : V) (h : isNone v = false) :
    pack O cx fx (.opt t) v = pack O cx fx t v := by
  cases v with
  | none => simp [isNone] at h
  | _ => rw [pack]; intro h'; cases h'

theorem unpack_opt_ne (O : Oracle) (cx : Cx) (fx : Fx) (t : Ty) (v : V) (h : isNone v = false) :
    unpack O cx fx (.opt t) v = unpack O cx fx t v := by
  cases v with
  | none => simp [isNone] at h
  | _ => rw [unpack]; intro h'; cases h'

theorem isNone_false_of_ne {v : V} (h : v ≠ .none) : isNone v = false := by
  cases v <;> simp_all [isNone]

theorem ne_none_of_isNone_false {v : V} (h : isNone v = false) : v ≠ .none := by
  intro h'; subst h'; simp [isNone] at h

theorem isNone_true {v : V} (h : isNone v = true) : v = .none := by
  cases v <;> simp_all [isNone]

theorem printed_isNone {b : V} (h : Printed b) : isNone b = false := by
  cases b <;> simp_all [Printed, isNone]

theorem basicScalar_of_printed {b : V} (h : Printed b) : BasicScalar b := by
  cases b <;> simp_all [Printed, BasicScalar]

/-- indexing any list-like object at an in-range non-negative literal index -/
theorem pyIndex_seq (v : V) (vs : List V) (hs : pySeq v = some vs) (hm : ∀ o kvs, v ≠ .map o kvs)
    (i : Nat) (x : V) (h : vs[i]? = some x) : pyIndex v (i : Int) = .ok x := by
  have hlt : i < vs.length := by
    rcases Nat.lt_or_ge i vs.length with h' | h'
    · exact h'
    · simp [List.getElem?_eq_none h'] at h
  have h1 : ¬ ((i : Int) < 0) := by omega
  have h3 : ¬ ((i : Int) ≥ (vs.length : Int)) := by omega
  cases v <;> first | (exact absurd rfl (hm _ _)) | (simp only [pyIndex, hs]; simp [h1, h3, h])

theorem lookupKey_cons_ne (k k' : String) (v : V) (kvs : List (V × V)) (h : k' ≠ k) :
    lookupKey ((V.str k, v) :: kvs) k' = lookupKey kvs k' := by
  have hb : (V.str k == V.str k') = false := by
    show V.beq (V.str k) (V.str k') = false
    simp [V.beq, Ne.symm h]
  simp [lookupKey, List.find?, hb]

theorem lookupKey_cons_eq (k : String) (v : V) (kvs : List (V × V)) :
    lookupKey ((V.str k, v) :: kvs) k = some v := by
  have hb : (V.str k == V.str k) = true := by
    show V.beq (V.str k) (V.str k) = true
    simp [V.beq]
  simp [lookupKey, List.find?, hb]

end Mashu
