/-
  Inversion lemmas for `do` blocks and list traversals, reflexivity of structural equality.
-/
import Mashu.Lemmas.Basic
namespace Mashu

theorem bind_ok_inv {α β} {x : R α} {f : α → R β} {b : β} (h : (x >>= f) = .ok b) :
    ∃ a, x = .ok a ∧ f a = .ok b := by
  cases x with
  | error e => simp [bind, Except.bind] at h
  | ok a => exact ⟨a, rfl, h⟩

theorem mapM_ok_inv {α β} (f : α → R β) (P : β → Prop) :
    ∀ (xs : List α) (bs : List β), xs.mapM f = .ok bs → (∀ x ∈ xs, ∀ b, f x = .ok b → P b) → ∀ b ∈ bs, P b := by
  intro xs
  induction xs with
  | nil =>
    intro bs h _ b hb
    simp [List.mapM_nil, pure, Except.pure] at h
    subst h; simp at hb
  | cons x xs ih =>
    intro bs h hp b hb
    rw [List.mapM_cons] at h
    obtain ⟨a, ha, h⟩ := bind_ok_inv h
    obtain ⟨rest, hrest, h⟩ := bind_ok_inv h
    simp [pure, Except.pure] at h
    subst h
    cases hb with
    | head => exact hp x (by simp) _ ha
    | tail _ h' => exact ih rest hrest (fun y hy => hp y (by simp [hy])) b h'

mutual
theorem V.beq_refl : ∀ v : V, V.beq v v = true
  | .none => by simp [V.beq]
  | .bool _ => by simp [V.beq]
  | .int _ => by simp [V.beq]
  | .float _ => by simp [V.beq]
  | .str _ => by simp [V.beq]
  | .leaf k _ => by cases k <;> simp [V.beq]
  | .enum _ _ => by simp [V.beq]
  | .coll o vs => by cases o <;> simp [V.beq, V.beqL_refl vs]
  | .map o kvs => by cases o <;> simp [V.beq, V.beqKV_refl kvs]
  | .ntuple _ vs => by simp [V.beq, V.beqL_refl vs]
  | .inst _ fs => by simp [V.beq, V.beqF_refl fs]
  | .tagged _ v => by simp [V.beq, V.beq_refl v]
theorem V.beqL_refl : ∀ vs : List V, V.beqL vs vs = true
  | [] => by simp [V.beqL]
  | v :: vs => by simp [V.beqL, V.beq_refl v, V.beqL_refl vs]
theorem V.beqKV_refl : ∀ kvs : List (V × V), V.beqKV kvs kvs = true
  | [] => by simp [V.beqKV]
  | (a, b) :: kvs => by simp [V.beqKV, V.beq_refl a, V.beq_refl b, V.beqKV_refl kvs]
theorem V.beqF_refl : ∀ fs : List (String × V), V.beqF fs fs = true
  | [] => by simp [V.beqF]
  | (a, b) :: fs => by simp [V.beqF, V.beq_refl b, V.beqF_refl fs]
end

theorem V.eq_refl (v : V) : (v == v) = true := V.beq_refl v

end Mashu
