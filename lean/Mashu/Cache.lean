/-
  Mashu.Cache — the per-class, per-format dialect caches and `Dialect.merge`
  (builder.py `add_pack_method` / `add_unpack_method`, `_add_*_method_with_dialect_lines`,
  `_add_setattr_method`; dialect.py `Dialect.merge`), property C13.

  A class namespace is what Python gives us: `cls.attr` walks the MRO (here: the chain of
  parents), `'attr' in cls.__dict__` looks at the class itself only.  A compiled method is
  identified by what it was compiled from: the class and the dialect.  Two methods with the same
  identity are the same function of their argument (compilation is a pure function of the class
  definition and the dialect) — that is the only fact about compilation the model uses.
-/
namespace Mashu.Cache

abbrev ClassId := Nat
abbrev DialectId := Nat

/-- a method slot: format name × direction, e.g. ("dict", pack) ↦ `__dialect_dict_packer_cache__` -/
structure Slot where
  fmt : String
  unpack : Bool
  deriving DecidableEq, Repr, Inhabited

/-- identity of a compiled method -/
structure Method where
  cls : ClassId
  dialect : Option DialectId
  deriving DecidableEq, Repr, Inhabited

/-- a class as Python sees it at run time -/
structure Cls where
  id : ClassId
  parent : Option ClassId
  support : Bool                                   -- ADD_DIALECT_SUPPORT in its (inherited) Config
  slots : List Slot                                -- the methods its mixins compile
  defaults : List (Slot × Method)                  -- `setattr(cls, '__mashumaro_to_dict__', …)` in own `__dict__`
  caches : List (Slot × List (DialectId × Method)) -- caches in the class's OWN `__dict__`
  deriving Repr, Inhabited

/-- newest class first; a parent is always defined before (= further down the list than) its children -/
abbrev State := List Cls

/-- association-list lookup by decidable equality -/
def lk {α β} [DecidableEq α] : List (α × β) → α → Option β
  | [], _ => none
  | (a', b) :: t, a => if a' = a then some b else lk t a

def find (s : State) (c : ClassId) : Option (Cls × State) :=
  match s with
  | [] => none
  | k :: rest => if k.id = c then some (k, rest) else find rest c

/-- `cls.<cache_name>`: attribute lookup along the MRO → the class that owns the cache found -/
def lookupCache : State → ClassId → Slot → Option (ClassId × List (DialectId × Method))
  | [], _, _ => none
  | k :: rest, c, sl =>
      if k.id = c then
        match lk k.caches sl with
        | some e => some (k.id, e)
        | none => match k.parent with
                  | some p => lookupCache rest p sl
                  | none => none
      else lookupCache rest c sl

/-- `cls.<method_name>`: the default (dialect-less) method found along the MRO -/
def lookupDefault : State → ClassId → Slot → Option Method
  | [], _, _ => none
  | k :: rest, c, sl =>
      if k.id = c then
        match lk k.defaults sl with
        | some m => some m
        | none => match k.parent with
                  | some p => lookupDefault rest p sl
                  | none => none
      else lookupDefault rest c sl

def setAssoc {α β} [DecidableEq α] (l : List (α × β)) (a : α) (b : β) : List (α × β) :=
  match l with
  | [] => [(a, b)]
  | (a', b') :: t => if a' = a then (a, b) :: t else (a', b') :: setAssoc t a b

/-- update the class `c` in place -/
def modify (s : State) (c : ClassId) (f : Cls → Cls) : State :=
  s.map (fun k => if k.id = c then f k else k)

/-- `if not '<cache_name>' in cls.__dict__: cls.<cache_name> = {}`.
    `own = true` is the guard as written (own `__dict__`); `own = false` is the look-alike
    `hasattr(cls, …)`, which is satisfied by a parent's cache. -/
def ensureCache (own : Bool) (s : State) (c : ClassId) (sl : Slot) : State :=
  let has : Bool := if own then
      (match find s c with
       | some (k, _) => (lk k.caches sl).isSome
       | none => true)
    else (lookupCache s c sl).isSome
  if has then s else modify s c (fun k => { k with caches := (sl, []) :: k.caches })

/-- `cls.<cache_name>[dialect] = method`: item assignment on whatever dict attribute lookup finds -/
def storeInFound (s : State) (c : ClassId) (sl : Slot) (d : DialectId) (m : Method) : State :=
  match lookupCache s c sl with
  | some (owner, _) =>
      modify s owner (fun k => { k with caches := k.caches.map (fun e => if e.1 = sl then (e.1, setAssoc e.2 d m) else e) })
  | none => s

/-- what one compilation (one `CodeBuilder(cls, dialect=…).add_*_method()`) does to the namespaces -/
def compileInto (own : Bool) (s : State) (c : ClassId) (sl : Slot) (support : Bool) (d : Option DialectId) : State :=
  let s1 := if support then ensureCache own s c sl else s
  match d with
  | none => modify s1 c (fun k => { k with defaults := setAssoc k.defaults sl ⟨c, none⟩ })
  | some dd => storeInFound s1 c sl dd ⟨c, some dd⟩

inductive Event
  | define (c : ClassId) (parent : Option ClassId) (support : Bool) (slots : List Slot)
  | call (c : ClassId) (sl : Slot) (d : Option DialectId)
  deriving Repr, Inhabited

inductive Out
  | defined
  | ran (m : Method)            -- the call executed this compiled method
  | noSuchMethod                -- AttributeError / TypeError(unexpected keyword): outside the statement
  deriving DecidableEq, Repr, Inhabited

/-- class creation: `__init_subclass__` compiles every slot of the class -/
def defineCls (own : Bool) (s : State) (c : ClassId) (parent : Option ClassId) (support : Bool) (slots : List Slot) : State :=
  let k : Cls := { id := c, parent := parent, support := support, slots := slots, defaults := [], caches := [] }
  slots.foldl (fun st sl => compileInto own st c sl support none) (k :: s)

/-- the generated method: `if dialect is None: <body> else: cache.get(dialect) or compile-store-fetch` -/
def step (own : Bool) (s : State) : Event → State × Out
  | .define c parent support slots => (defineCls own s c parent support slots, .defined)
  | .call c sl none =>
      match find s c with
      | none => (s, .noSuchMethod)
      | some (k, _) =>
        -- (every subclass of a mixin compiles all the mixin's slots itself, so a class without the
        --  slot is a class without the method; inheritance of a parent's *default* method by a
        --  class that does not compile the slot does not occur and is not modelled)
        if !k.slots.contains sl then (s, .noSuchMethod) else
        (s, match lookupDefault s c sl with
            | some m => .ran m
            | none => .noSuchMethod)
  | .call c sl (some d) =>
      match find s c with
      | none => (s, .noSuchMethod)
      | some (k, _) =>
        if !k.support || !k.slots.contains sl then (s, .noSuchMethod) else
        match lookupCache s c sl with
        | none => (s, .noSuchMethod)
        | some (_, entries) =>
          match lk entries d with
          | some m => (s, .ran m)
          | none =>
            let s' := compileInto own s c sl true (some d)
            (s', match (lookupCache s' c sl).bind (fun e => lk e.2 d) with
                 | some m => .ran m
                 | none => .noSuchMethod)

def run (own : Bool) (s : State) : List Event → List Out
  | [] => []
  | e :: es => let r := step own s e; r.2 :: run own r.1 es

/-- the specification: a call executes the method compiled from exactly that class and exactly
    that dialect, whatever happened before -/
def specOut (defined : List (ClassId × Bool × List Slot)) : Event → Out
  | .define _ _ _ _ => .defined
  | .call c sl d =>
      match lk defined c with
      | some (support, slots) =>
          if slots.contains sl && (d.isNone || support) then .ran ⟨c, d⟩ else .noSuchMethod
      | none => .noSuchMethod

def noteDefined (defined : List (ClassId × Bool × List Slot)) : Event → List (ClassId × Bool × List Slot)
  | .define c _ support slots => (c, support, slots) :: defined
  | .call _ _ _ => defined

def runSpec (defined : List (ClassId × Bool × List Slot)) : List Event → List Out
  | [] => []
  | e :: es => specOut (noteDefined defined e) e :: runSpec (noteDefined defined e) es

/-! ### Dialect.merge -/

/-- one direction of a strategy registration -/
inductive M
  | fn (tag : String)
  | pass
  deriving DecidableEq, Repr, Inhabited

/-- a registration for one type key.  `whole = true`: a SerializationStrategy object (it always
    answers both directions, and replaces the other side's registration as a whole);
    `whole = false`: a dict that may define one direction only. -/
structure Reg where
  whole : Bool
  ser : Option M
  de : Option M
  deriving DecidableEq, Repr, Inhabited

/-- a dialect: options by name (unset = MISSING) and strategy registrations by type key -/
structure Dialect where
  opts : List (String × String)          -- option name ↦ rendered value
  strat : List (String × Reg)
  deriving Repr, Inhabited

def mergeReg (mine : Option Reg) (other : Reg) : Reg :=
  if other.whole then other else
  match mine with
  | none => other
  | some r => { whole := false, ser := other.ser <|> r.ser, de := other.de <|> r.de }

def Reg.get (r : Reg) (unpack : Bool) : Option M := if unpack then r.de else r.ser

/-- `cls.merge(other)`: every key of `keys` (the tuple in the source) takes the other side's value
    if set, else this side's; an option that is not in `keys` is not carried over at all -/
def merge (keys : List String) (mine other : Dialect) : Dialect :=
  { opts := keys.filterMap (fun k => (lk other.opts k <|> lk mine.opts k).map (fun v => (k, v))),
    strat := other.strat.foldl (fun acc e => setAssoc acc e.1 (mergeReg (lk acc e.1) e.2)) mine.strat }

/-- looking an option up in two stacked dialects (call dialect over default dialect) -/
def stacked (top bottom : Dialect) (o : String) : Option String :=
  lk top.opts o <|> lk bottom.opts o

end Mashu.Cache
