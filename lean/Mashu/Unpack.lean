/-
  Mashu.Unpack — the deserializer: an interpreter of what the generated `from_dict` /
  `decode` code does on an *arbitrary* input, by structural recursion over the annotation.

  Source of truth: mashumaro/core/meta/types/unpack.py and the field loop of builder.py
  (`_add_unpack_method_lines`, `FieldUnpackerCodeBlockBuilder.build`).
-/
import Mashu.Pack
namespace Mashu

/-- members of a union that get an exact-type test instead of a `try` (TypeMatchEligibleExpression) -/
def Ty.isScalar : Ty → Bool
  | .none | .bool | .int | .float | .str => true
  | _ => false

/-- Is the unpacker expression the bare value at a dataclass field position? -/
def Ty.unpackIdent : Ty → Bool
  | .any => true
  | .opt t => t.unpackIdent
  | _ => false

def unpackScalar (O : Oracle) : Ty → V → R V
  | .none, _ => .ok .none
  | .bool, v => O.run .bool v
  | .int, v => O.run .int v
  | .float, v => O.run .float v
  | .str, v => O.run .str v
  | _, _ => raisePy .other

def isMapV : V → Bool
  | .map _ _ => true
  | _ => false

/-- isinstance(d, dict) -/
def isDictV : V → Bool
  | .map .mproxy _ => false
  | .map _ _ => true
  | _ => false

def lookupKey (kvs : List (V × V)) (k : String) : Option V :=
  (kvs.find? (fun kv => kv.1 == V.str k)).map (·.2)

/-- the three alias sources of a field, in the order `__get_field_alias` consults them:
    `metadata["alias"]`, the Alias annotations of an `Annotated` type (the last one wins: the
    loop keeps overwriting), `Config.aliases[name]` -/
def aliasOf (md : Option String) (annotated : List String) (config : Option String) : Option String :=
  match md with
  | some a => some a
  | none =>
    match annotated.getLast? with
    | some a => some a
    | none => config

/-- the key(s) a field is read from: its alias if it has one, else its name; with
    allow_deserialization_not_by_alias the name is the fallback -/
def findKey (cfg : Cfg) (f : FieldDef) (kvs : List (V × V)) : Option V :=
  match f.alias with
  | some a =>
      if cfg.allowNotByAlias then
        match lookupKey kvs a with
        | some x => some x
        | none => lookupKey kvs f.name
      else lookupKey kvs a
  | none => lookupKey kvs f.name

/-- the instance built by `cls(...)`: every field in declaration order -/
def buildInst (cls : String) (vals : List (String × V)) : V := .inst cls vals

def noMatch (cx : Cx) (fx : Fx) (v : V) : Exc :=
  if cx.nailed then .invalidFieldValue fx.field v fx.holder else .unionNoMatch v

def defaultsOnly : List (FieldDef × Ty) → Option (List (String × V))
  | [] => some []
  | (f, _) :: fs =>
      match f.default, defaultsOnly fs with
      | some dv, some r => some ((f.name, dv) :: r)
      | _, _ => none

/-- Literal: accept by `==` on the listed constants and return the listed constant. -/
def unpackLit (O : Oracle) : List (V × V) → V → Option V
  | [], _ => none
  | cw :: cs, v =>
      match cw.1 with
      | .leaf .bytes _ =>
          match O.call (.parse .bytes) v with
          | .ok b => if b == cw.1 then some cw.1 else unpackLit O cs v
          | .error _ => unpackLit O cs v
      | .enum _ _ => if O.eq v cw.2 then some cw.1 else unpackLit O cs v
      | _ => if O.eq v cw.1 then some cw.1 else unpackLit O cs v

/-- input keys outside the accepted set (aliases, or names; with
    allow_deserialization_not_by_alias both) -/
def extraKeysOf (cfg : Cfg) (initFs : List (FieldDef × Ty)) (kvs : List (V × V)) : List V :=
  let allowed : List String :=
    initFs.map (fun ft => ft.1.alias.getD ft.1.name)
      ++ (if cfg.allowNotByAlias then initFs.map (fun ft => ft.1.name) else [])
  (kvs.map (·.1)).filter (fun k => !(allowed.any (fun a => k == V.str a)))

/-- the frame of the generated `from_dict`: argument check, extra-keys check, field blocks
    (`fieldsF`), constructor call -/
def fromDict (cls : String) (cfg : Cfg) (fs : List (FieldDef × Ty)) (d : V)
    (fieldsF : List (V × V) → R (List (String × V))) : R V :=
  let initFs := fs.filter (fun ft => ft.1.init)
  -- since fix F42 a class without constructor parameters checks its argument like any other
  match d with
  | .map _ kvs =>
      let extra := extraKeysOf cfg initFs kvs
      if cfg.forbidExtraKeys && !extra.isEmpty then .error (.extraKeys extra cls)
      else do
        let vals ← fieldsF kvs
        pure (buildInst cls vals)
  | _ =>
      -- d.keys() / d.get(...) raise AttributeError → "should be a dict instance"
      .error (.notADict cls)

/-- build the canonical collection class from the converted elements -/
def finishColl (o : CollO) (r : List V) : R V :=
  match o with
  | .set | .frozenset => if r.all pyHashable then .ok (.coll o r) else raisePy .typeError
  | .tuple | .chainmap => raisePy .other
  | .list | .deque => .ok (.coll o r)

/-- `E(value)`: a member of E is returned as is, otherwise lookup by value -/
def unpackEnum (O : Oracle) (cls : String) (ms : List (String × V)) (v : V) : R V :=
  match v with
  | .enum c m =>
      if c == cls && ms.any (fun nm => nm.1 == m) then .ok v else raisePy .valueError
  | _ =>
    match ms.find? (fun nm => O.eq v nm.2) with
    | some nm => .ok (.enum cls nm.1)
    | none => raisePy .valueError

mutual
def unpack (O : Oracle) (cx : Cx) (fx : Fx) : Ty → V → R V
  | .any, v => .ok v
  | .none, _ => .ok .none
  | .bool, v => O.run .bool v
  | .int, v => O.run .int v
  | .float, v => O.run .float v
  | .str, v => O.run .str v
  | .leaf k, v => O.run (.parse k) v
  | .enum cls ms, v => unpackEnum O cls ms v
  | .lit vals, v =>
      match unpackLit O vals v with
      | some c => .ok c
      | none => raisePy .valueError
  | .opt t, v =>
      match v with
      | .none => .ok .none
      | _ => unpack O cx fx t v
  | .union ts, v =>
      -- exact-type tests and ordered tries, in declaration order
      -- (a None input of a union with a None member returns at once: fix F46; any other exact scalar
      --  match comes first only in the reference mode fixK2)
      if (cx.fixK2 || isNone v) && ts.any (fun t => t.isScalar && t.scalarCls == classOf v) then .ok v else
      match unionWalk O cx fx ts v with
      | some r => .ok r
      | none =>
        -- scalar coercions of the type-match members, in declaration order
        match firstOk (fun t => unpackScalar O t v)
            (ts.filter (fun t => t.isScalar && !(cx.fixK1 && t.scalarCls == .none))) with
        | some r => .ok r
        | none => .error (noMatch cx fx v)
  | .coll o t, v => do
      let xs ← pyIterO O v
      let r ← xs.mapM (unpack O cx fx t)
      finishColl o r
  | .map o k t, v => do
      let kvs ← pyItems v
      let r ← kvs.mapM (kvMH (unpack O cx fx k) (if o == .counter then O.run .int else unpack O cx fx t))
      pure (.map o r)
  | .chain k t, v => do
      let ms ← pyIterO O v
      let r ← ms.mapM (itemsM (kvMH (unpack O cx fx k) (unpack O cx fx t)))
      pure (.coll .chainmap r)
  | .tvar t, v => do
      let xs ← pyIterO O v
      let r ← xs.mapM (unpack O cx fx t)
      pure (.coll .tuple r)
  | .tfix ts, v => do
      let r ← unpackIdx O cx fx ts v 0
      pure (.coll .tuple r)
  | .tunp pre mid post, v => do
      let a ← unpackIdx O cx fx pre v 0
      let sl ← pySlice v pre.length (if post.isEmpty then none else some (-(post.length : Int)))
      let b ← sl.mapM (unpack O cx fx mid)
      let c ← unpackIdx O cx fx post v (-(post.length : Int))
      pure (.coll .tuple (a ++ b ++ c))
  | .nt cls fs defs asDict, v =>
      let asD := asDict.getD cx.ntAsDict
      if defs.isEmpty then do
        let r ← unpackNT O cx fx fs v 0 asD
        pure (.ntuple cls r)
      else if asD then do
        -- dict form (since fix F45): a missing key selects the default of THAT member; NT(**fields)
        -- raises TypeError when a member without default has no key
        let r ← unpackNTk O cx fx fs (fs.length - defs.length) defs v
        if r.all Option.isSome then pure (.ntuple cls (r.filterMap id)) else raisePy .typeError
      else do
        let r ← unpackNTd O cx fx fs v 0 asD
        -- NT(*fields): missing trailing fields take their defaults, too few → TypeError
        if r.length + defs.length < fs.length then raisePy .typeError
        else pure (.ntuple cls (r ++ defs.drop (r.length + defs.length - fs.length)))
  | .td _ req opt, v => do
      let a ← unpackReq O cx fx req v
      let b ← unpackOpt O cx fx opt v
      pure (.map .dict (a ++ b))
  | .dc cls cfg fs, d =>
      fromDict cls cfg fs d (unpackFields O { cx with ntAsDict := cfg.ntAsDict } cls cfg fs)

/-- members in declaration order: a scalar member returns the value unchanged when the
    exact type matches; an identity member returns at once; any other member is tried. -/
def unionWalk (O : Oracle) (cx : Cx) (fx : Fx) : List Ty → V → Option V
  | [], _ => none
  | t :: ts, v =>
      if t.isScalar then
        if t.scalarCls == classOf v then some v else unionWalk O cx fx ts v
      else if t.unpackIdent then some v
      else match unpack O cx fx t v with
        | .ok r => some r
        | .error _ => unionWalk O cx fx ts v

def unpackIdx (O : Oracle) (cx : Cx) (fx : Fx) : List Ty → V → Int → R (List V)
  | [], _, _ => .ok []
  | t :: ts, v, i => do
      let x ← (if t.constUnpack then pure V.none else pyIndexO O v i)
      let a ← unpack O cx fx t x
      let r ← unpackIdx O cx fx ts v (i + 1)
      pure (a :: r)

def unpackNT (O : Oracle) (cx : Cx) (fx : Fx) : List (String × Ty) → V → Int → Bool → R (List V)
  | [], _, _, _ => .ok []
  | (n, t) :: fs, v, i, asD => do
      let x ← (if t.constUnpack then pure V.none else if asD then pyGetItemStr v n else pyIndexO O v i)
      let a ← unpack O cx fx t x
      let r ← unpackNT O cx fx fs v (i + 1) asD
      pure (a :: r)

/-- named tuple with defaults, dict form: `nreq` members without default are still ahead, then the
    members pair up with `defs`; `none` = no key and no default -/
def unpackNTk (O : Oracle) (cx : Cx) (fx : Fx) : List (String × Ty) → Nat → List V → V → R (List (Option V))
  | [], _, _, _ => .ok []
  | (n, t) :: fs, nreq, defs, v =>
      let dflt : Option V := if nreq = 0 then defs.head? else none
      let defs' := if nreq = 0 then defs.tail else defs
      -- (`item = value[key]` is a statement of its own here: it is executed for a constant member too)
      match pyGetItemStr v n with
      | .error e =>
          if e.isKind .keyError then do
            let r ← unpackNTk O cx fx fs (nreq - 1) defs' v
            pure (dflt :: r)
          else .error e
      | .ok x => do
          let a ← unpack O cx fx t x
          let r ← unpackNTk O cx fx fs (nreq - 1) defs' v
          pure (some a :: r)

/-- named tuple with defaults: `try: fields.append(...) … except IndexError: pass` -/
def unpackNTd (O : Oracle) (cx : Cx) (fx : Fx) : List (String × Ty) → V → Int → Bool → R (List V)
  | [], _, _, _ => .ok []
  | (n, t) :: fs, v, i, asD =>
      -- since fix F17 the item lookup is a statement of its own, executed for a constant member too
      match (if t.constUnpack && !cx.fixK3 then pure V.none else if asD then pyGetItemStr v n else pyIndexO O v i) with
      | .error e => if e.isKind .indexError then .ok [] else .error e
      | .ok x =>
        match unpack O cx fx t x with
        | .ok a => do
            let r ← unpackNTd O cx fx fs v (i + 1) asD
            pure (a :: r)
        | .error e => if !cx.fixK3 && e.isKind .indexError then .ok [] else .error e

def unpackReq (O : Oracle) (cx : Cx) (fx : Fx) : List (String × Ty) → V → R (List (V × V))
  | [], _ => .ok []
  | (n, t) :: fs, v => do
      let x ← (if t.constUnpack then pure V.none else pyGetItemStr v n)
      let a ← unpack O cx fx t x
      let r ← unpackReq O cx fx fs v
      pure ((V.str n, a) :: r)

def unpackOpt (O : Oracle) (cx : Cx) (fx : Fx) : List (String × Ty) → V → R (List (V × V))
  | [], _ => .ok []
  | (n, t) :: fs, v => do
      let x ← pyGetStr v n
      match x with
      | none => unpackOpt O cx fx fs v
      | some x => do
          let a ← unpack O cx fx t x
          let r ← unpackOpt O cx fx fs v
          pure ((V.str n, a) :: r)

/-- the per-field blocks of `from_dict`, in declaration order -/
def unpackFields (O : Oracle) (cx : Cx) (cls : String) (cfg : Cfg) :
    List (FieldDef × Ty) → List (V × V) → R (List (String × V))
  | [], _ => .ok []
  | (f, t) :: fs, kvs =>
      if !f.init then
        match f.default with
        | some dv => do
            let r ← unpackFields O cx cls cfg fs kvs
            pure ((f.name, dv) :: r)
        | none => raisePy .typeError
      else
        let found : Option V := findKey cfg f kvs
        match found with
        | none =>
            match f.default with
            | none => .error (.missingField f.name cls)
            | some dv => do
                let r ← unpackFields O cx cls cfg fs kvs
                pure ((f.name, dv) :: r)
        | some x =>
            if t.unpackIdent then do
              let r ← unpackFields O cx cls cfg fs kvs
              pure ((f.name, x) :: r)
            else if fieldCouldBeNone f t && isNone x then do
              let r ← unpackFields O cx cls cfg fs kvs
              pure ((f.name, V.none) :: r)
            else
              match unpack O cx { field := f.name, holder := cls } t x with
              | .ok a => do
                  let r ← unpackFields O cx cls cfg fs kvs
                  pure ((f.name, a) :: r)
              | .error _ => .error (.invalidFieldValue f.name x cls)

end

end Mashu
