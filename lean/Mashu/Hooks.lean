/-
  Mashu.Hooks — which hooks fire, for which instance, in which order, and with which context
  (builder.py `_add_pack_method_lines` / `_add_unpack_method_lines`: hook lines around the field
  loop; `get_pack_method_flags`: a flag is forwarded to a nested class only when both classes
  enabled it; pack.py `pack_union`: ordered speculative tries), property C19.

  Only the shape relevant to hooks is kept: dataclass instances (with the names of their fields),
  homogeneous containers / Optional (a list of children), fixed tuples, unions.
-/
namespace Mashu.Hooks

/-- what a class declares -/
structure HCls where
  preSer : Bool := false
  postSer : Bool := false
  preDe : Bool := false
  postDe : Bool := false
  ctx : Bool := false              -- ADD_SERIALIZATION_CONTEXT
  deriving Repr, DecidableEq, Inhabited

inductive HT
  | leaf                                             -- no dataclass instance below
  | dc (cls : String) (fields : List (String × HT))
  | list (t : HT)                                     -- List / Set / Dict values / Tuple[t, ...] / Optional (0 or 1 child)
  | tup (ts : List HT)                                -- Tuple[t1..tn] / NamedTuple
  | union (ts : List HT)
  deriving Repr, Inhabited

inductive HV
  | leaf
  | inst (cls : String) (uid : Nat) (fields : List (String × HV))
  | list (vs : List HV)
  deriving Repr, Inhabited

inductive Kind | preSer | postSer | preDe | postDe
  deriving Repr, DecidableEq, Inhabited

structure Ev where
  kind : Kind
  cls : String
  uid : Nat
  ctx : Bool                       -- the hook received the caller's context object
  deriving Repr, DecidableEq, Inhabited

abbrev Table := String → HCls

/-- attribute names of an instance -/
def fieldNames (fs : List (String × HV)) : List String := fs.map (·.1)

def lookupF (fs : List (String × HV)) (n : String) : Option HV :=
  match fs with
  | [] => none
  | (m, v) :: t => if m = n then some v else lookupF t n

mutual
/-- serialization trace.  `c`: the caller holds a context and has the option enabled.
    Returns the events that happened and whether the (sub)serializer returned normally. -/
def packT (H : Table) (nailed : Bool) (c : Bool) : HT → HV → List Ev × Bool
  | .leaf, _ => ([], true)
  | .dc cls fs, v =>
      match v with
      | .inst rc uid ivs =>
          -- nailed: `value.__mashumaro_to_dict__()` is the method of the RUNTIME class;
          -- codec: the packer compiled for the ANNOTATED class is applied to whatever comes
          let mcls := if nailed then rc else cls
          let declared := H mcls                  -- which hook lines the method contains
          let runtime := H rc                     -- `self.<hook>` resolves on the instance
          let cHere := c && declared.ctx
          if declared.preSer && !runtime.preSer then ([], false) else   -- AttributeError
          let pre := if declared.preSer then [⟨.preSer, rc, uid, cHere⟩] else []
          -- nailed → the runtime class's own fields; codec → the annotated class's fields, read from the instance
          let r := if nailed then packOwn H nailed cHere ivs else packF H nailed cHere fs ivs
          if !r.2 then (pre ++ r.1, false) else
          if declared.postSer && !runtime.postSer then (pre ++ r.1, false) else
          (pre ++ r.1 ++ (if declared.postSer then [⟨.postSer, rc, uid, cHere⟩] else []), true)
      | _ => ([], false)
  | .list t, v =>
      match v with
      | .list vs => packL H nailed c t vs
      | _ => ([], false)
  | .tup ts, v =>
      match v with
      | .list vs => packTup H nailed c ts vs
      | _ => ([], false)
  | .union ts, v => packU H nailed c ts v

/-- nailed path: the instance serializes itself with its own class's method, which knows its own
    field types; the model only needs the hooks below, so it walks the instance's own values
    (each nested instance again serializes itself) -/
def packOwn (H : Table) (nailed : Bool) (c : Bool) : List (String × HV) → List Ev × Bool
  | [] => ([], true)
  | (_, v) :: rest =>
      let a := packAny H nailed c v
      let b := packOwn H nailed c rest
      (a.1 ++ b.1, a.2 && b.2)

/-- a value serializing itself (nailed path below an instance) -/
def packAny (H : Table) (nailed : Bool) (c : Bool) : HV → List Ev × Bool
  | .leaf => ([], true)
  | .inst rc uid ivs =>
      let h := H rc
      let cHere := c && h.ctx
      let pre := if h.preSer then [⟨.preSer, rc, uid, cHere⟩] else []
      let r := packOwn H nailed cHere ivs
      (pre ++ r.1 ++ (if h.postSer then [⟨.postSer, rc, uid, cHere⟩] else []), r.2)
  | .list vs => packAnyL H nailed c vs

def packAnyL (H : Table) (nailed : Bool) (c : Bool) : List HV → List Ev × Bool
  | [] => ([], true)
  | v :: vs =>
      let a := packAny H nailed c v
      let b := packAnyL H nailed c vs
      (a.1 ++ b.1, a.2 && b.2)

/-- codec path: the annotated class's fields, in declaration order, read from the instance -/
def packF (H : Table) (nailed : Bool) (c : Bool) : List (String × HT) → List (String × HV) → List Ev × Bool
  | [], _ => ([], true)
  | (n, t) :: fs, ivs =>
      match lookupF ivs n with
      | none => ([], false)                       -- AttributeError: the instance has no such attribute
      | some v =>
          let a := packT H nailed c t v
          if !a.2 then (a.1, false) else
          let b := packF H nailed c fs ivs
          (a.1 ++ b.1, b.2)

def packL (H : Table) (nailed : Bool) (c : Bool) (t : HT) : List HV → List Ev × Bool
  | [] => ([], true)
  | v :: vs =>
      let a := packT H nailed c t v
      if !a.2 then (a.1, false) else
      let b := packL H nailed c t vs
      (a.1 ++ b.1, b.2)

def packTup (H : Table) (nailed : Bool) (c : Bool) : List HT → List HV → List Ev × Bool
  | [], _ => ([], true)
  | _ :: _, [] => ([], false)
  | t :: ts, v :: vs =>
      let a := packT H nailed c t v
      if !a.2 then (a.1, false) else
      let b := packTup H nailed c ts vs
      (a.1 ++ b.1, b.2)

/-- `try: return <member packer>(value) except Exception: pass`, in declaration order: the events
    of a failed attempt have happened all the same -/
def packU (H : Table) (nailed : Bool) (c : Bool) : List HT → HV → List Ev × Bool
  | [], _ => ([], false)
  | t :: ts, v =>
      let a := packT H nailed c t v
      if a.2 then a else
      let b := packU H nailed c ts v
      (a.1 ++ b.1, b.2)
end

/- the specification: walk the VALUE; every instance contributes its pre hook, then what is
   below it in field order, then its post hook; the context reaches every class that opted in -/
mutual
def trav (H : Table) (c : Bool) : HV → List Ev
  | .leaf => []
  | .inst rc uid ivs =>
      let h := H rc
      (if h.preSer then [⟨.preSer, rc, uid, c && h.ctx⟩] else [])
        ++ travF H c ivs
        ++ (if h.postSer then [⟨.postSer, rc, uid, c && h.ctx⟩] else [])
  | .list vs => travL H c vs
def travF (H : Table) (c : Bool) : List (String × HV) → List Ev
  | [] => []
  | (_, v) :: rest => trav H c v ++ travF H c rest
def travL (H : Table) (c : Bool) : List HV → List Ev
  | [] => []
  | v :: vs => trav H c v ++ travL H c vs
end

/-! ### deserialization -/

mutual
/-- `from_dict` of the annotated class on an input that has the shape of a result value: the
    class's pre hook on the raw dict, the fields in order, the constructor, the post hook -/
def unpackT (H : Table) : HT → HV → List Ev × Bool
  | .leaf, _ => ([], true)
  | .dc cls fs, v =>
      match v with
      | .inst _ uid ivs =>
          let h := H cls
          let pre := if h.preDe then [⟨.preDe, cls, uid, false⟩] else []
          let r := unpackF H fs ivs
          if !r.2 then (pre ++ r.1, false) else
          (pre ++ r.1 ++ (if h.postDe then [⟨.postDe, cls, uid, false⟩] else []), true)
      | _ => ([], false)
  | .list t, v =>
      match v with
      | .list vs => unpackL H t vs
      | _ => ([], false)
  | .tup ts, v =>
      match v with
      | .list vs => unpackTup H ts vs
      | _ => ([], false)
  | .union ts, v => unpackU H ts v

def unpackF (H : Table) : List (String × HT) → List (String × HV) → List Ev × Bool
  | [], _ => ([], true)
  | (n, t) :: fs, ivs =>
      match lookupF ivs n with
      | none => ([], false)                       -- MissingField
      | some v =>
          let a := unpackT H t v
          if !a.2 then (a.1, false) else
          let b := unpackF H fs ivs
          (a.1 ++ b.1, b.2)

def unpackL (H : Table) (t : HT) : List HV → List Ev × Bool
  | [] => ([], true)
  | v :: vs =>
      let a := unpackT H t v
      if !a.2 then (a.1, false) else
      let b := unpackL H t vs
      (a.1 ++ b.1, b.2)

def unpackTup (H : Table) : List HT → List HV → List Ev × Bool
  | [], _ => ([], true)
  | _ :: _, [] => ([], false)
  | t :: ts, v :: vs =>
      let a := unpackT H t v
      if !a.2 then (a.1, false) else
      let b := unpackTup H ts vs
      (a.1 ++ b.1, b.2)

def unpackU (H : Table) : List HT → HV → List Ev × Bool
  | [], _ => ([], false)
  | t :: ts, v =>
      let a := unpackT H t v
      if a.2 then a else
      let b := unpackU H ts v
      (a.1 ++ b.1, b.2)
end

/- the deserialization specification: walk the result along the annotation -/
mutual
def travD (H : Table) : HT → HV → List Ev
  | .dc cls fs, .inst _ uid ivs =>
      (if (H cls).preDe then [⟨.preDe, cls, uid, false⟩] else []) ++ travDF H fs ivs
        ++ (if (H cls).postDe then [⟨.postDe, cls, uid, false⟩] else [])
  | .list t, .list vs => travDL H t vs
  | .tup ts, .list vs => travDT H ts vs
  | _, _ => []
def travDF (H : Table) : List (String × HT) → List (String × HV) → List Ev
  | (_, t) :: fs, (_, v) :: ivs => travD H t v ++ travDF H fs ivs
  | _, _ => []
def travDL (H : Table) (t : HT) : List HV → List Ev
  | [] => []
  | v :: vs => travD H t v ++ travDL H t vs
def travDT (H : Table) : List HT → List HV → List Ev
  | t :: ts, v :: vs => travD H t v ++ travDT H ts vs
  | _, _ => []
end

end Mashu.Hooks
