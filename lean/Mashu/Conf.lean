/-
  Mashu.Conf — conformance of a value to an annotation (with the exact canonical classes),
  the oracle laws the theorems assume of Python builtins / stdlib leaf functions, and the
  structural side conditions of the round-trip theorem.
-/
import Mashu.Unpack
namespace Mashu

/- basic-form values: only None/bool/int/float/str/list/dict -/
mutual
def Basic : V → Prop
  | .none | .bool _ | .int _ | .float _ | .str _ => True
  | .coll .list vs => BasicL vs
  | .map .dict kvs => BasicKV kvs
  | _ => False
def BasicL : List V → Prop
  | [] => True
  | v :: vs => Basic v ∧ BasicL vs
def BasicKV : List (V × V) → Prop
  | [] => True
  | (k, v) :: kvs => Basic k ∧ Basic v ∧ BasicKV kvs
end

/-- scalar basic values (what a leaf printer may return) -/
def BasicScalar : V → Prop
  | .none | .bool _ | .int _ | .float _ | .str _ => True
  | _ => False

theorem BasicScalar.basic {v : V} (h : BasicScalar v) : Basic v := by
  cases v <;> simp_all [BasicScalar, Basic]

/- `v` is a value of the annotated type, built from the canonical classes. -/
mutual
def Conf : Ty → V → Prop
  | .any, v => Basic v                       -- Any leaves hold JSON-like data in conforming values
  | .none, v => v = .none
  | .bool, v => ∃ b, v = .bool b
  | .int, v => ∃ i, v = .int i
  | .float, v => ∃ t, v = .float t
  | .str, v => ∃ s, v = .str s
  | .leaf k, v => ∃ c, v = .leaf k c
  | .enum cls ms, v => ∃ m, v = .enum cls m ∧ (ms.lookup m).isSome
  | .lit vals, v => ∃ cw ∈ vals, v = cw.1
  | .opt t, v => v = .none ∨ Conf t v
  | .union ts, v => ConfAny ts v
  | .coll o t, v => ∃ vs, v = .coll o vs ∧ ∀ x ∈ vs, Conf t x
  | .map o k t, v => ∃ kvs, v = .map o kvs ∧ ∀ kv ∈ kvs, Conf k kv.1 ∧ Conf t kv.2
  | .chain k t, v => ∃ ms, v = .coll .chainmap ms ∧ ∀ m ∈ ms, ∃ kvs, m = .map .dict kvs ∧ ∀ kv ∈ kvs, Conf k kv.1 ∧ Conf t kv.2
  | .tvar t, v => ∃ vs, v = .coll .tuple vs ∧ ∀ x ∈ vs, Conf t x
  | .tfix ts, v => ∃ vs, v = .coll .tuple vs ∧ ConfL ts vs
  | .tunp pre mid post, v => ∃ a b c, v = .coll .tuple (a ++ b ++ c) ∧ ConfL pre a ∧ (∀ x ∈ b, Conf mid x) ∧ ConfL post c
  | .nt cls fs _ _, v => ∃ vs, v = .ntuple cls vs ∧ ConfN fs vs
  | .td _ req opt, v => ∃ a b, v = .map .dict (a ++ b) ∧ ConfReq req a ∧ ConfOpt opt b
  | .dc cls _ fs, v => ∃ ivs, v = .inst cls ivs ∧ ConfF fs ivs
def ConfAny : List Ty → V → Prop
  | [], _ => False
  | t :: ts, v => Conf t v ∨ ConfAny ts v
def ConfL : List Ty → List V → Prop
  | [], [] => True
  | t :: ts, v :: vs => Conf t v ∧ ConfL ts vs
  | _, _ => False
def ConfN : List (String × Ty) → List V → Prop
  | [], [] => True
  | (_, t) :: fs, v :: vs => Conf t v ∧ ConfN fs vs
  | _, _ => False
/-- required TypedDict keys: all present, in declaration order -/
def ConfReq : List (String × Ty) → List (V × V) → Prop
  | [], [] => True
  | (n, t) :: fs, (k, v) :: kvs => k = .str n ∧ Conf t v ∧ ConfReq fs kvs
  | _, _ => False
/-- optional TypedDict keys: a sub-sequence, in declaration order -/
def ConfOpt : List (String × Ty) → List (V × V) → Prop
  | [], [] => True
  | [], _ :: _ => False
  | (n, t) :: fs, kvs =>
      ConfOpt fs kvs ∨ (match kvs with
        | (k, v) :: rest => k = .str n ∧ Conf t v ∧ ConfOpt fs rest
        | [] => False)
/-- dataclass instance: every field, in declaration order -/
def ConfF : List (FieldDef × Ty) → List (String × V) → Prop
  | [], [] => True
  | (f, t) :: fs, (n, v) :: ivs => n = f.name ∧ (Conf t v ∨ (v = .none ∧ f.default = some .none)) ∧ ConfF fs ivs
  | _, _ => False
end

end Mashu
