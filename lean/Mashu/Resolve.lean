/-
  Mashu.Resolve — which customization applies to a field
  (pack.py `get_overridden_serialization_method`, unpack.py `get_overridden_deserialization_method`,
  builder.py `iter_serialization_strategies` / `__iter_serialization_strategies`).
-/
namespace Mashu.Resolve

/-- what a level says for one direction -/
inductive M
  | fn (tag : String)      -- a user function / SerializationStrategy method (identified by a tag)
  | pass                   -- pass_through
  deriving DecidableEq, Repr, Inhabited

/-- a registration: a SerializationStrategy object or a dict defines one or both directions;
    `pass_through` registered as the strategy itself answers both -/
structure Reg where
  ser : Option M := none
  de : Option M := none
  deriving DecidableEq, Repr, Inhabited

inductive Dir | ser | de
  deriving DecidableEq, Repr

def Reg.get (r : Reg) : Dir → Option M
  | .ser => r.ser
  | .de => r.de

/-- everything that may be registered for one field -/
structure Levels where
  fieldSer : Option M := none                 -- metadata serialize=
  fieldDe : Option M := none                  -- metadata deserialize=
  fieldStrategy : Option Reg := none          -- metadata serialization_strategy=
  keyed : String → String → Option Reg        -- type key → source → registration

def Levels.fieldOpt (L : Levels) : Dir → Option M
  | .ser => L.fieldSer
  | .de => L.fieldDe

/-- the implementation: nested loops, type keys outside, sources inside; the field's own
    strategy is yielded first *for every type key* -/
def resolveImpl (keyOrder srcOrder : List String) (d : Dir) (L : Levels) : Option M :=
  match L.fieldOpt d with
  | some m => some m
  | none =>
    keyOrder.findSome? (fun k =>
      srcOrder.findSome? (fun s =>
        if s == "fieldStrategy" then (L.fieldStrategy.bind (·.get d))
        else (L.keyed k s).bind (·.get d)))

/-- the specification: one flat precedence list -/
def specList (L : Levels) (d : Dir) : List (Option M) :=
  [L.fieldOpt d, L.fieldStrategy.bind (·.get d)] ++
    (["annotated_type", "type", "origin_type"].flatMap (fun k =>
      ["callDialect", "configDialect", "config", "defaultDialect"].map (fun s => (L.keyed k s).bind (·.get d))))

def resolveSpec (d : Dir) (L : Levels) : Option M :=
  (specList L d).findSome? id

end Mashu.Resolve
