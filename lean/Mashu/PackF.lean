/-
  Mashu.PackF — per-format pack methods of nested dataclasses and SUBCLASS instances.
  Source: builder.py `_add_pack_method_lines` (the `_method_owner` guard), `_add_pack_method_lines_lazy`,
  pack.py `pack_dataclass` (the field packer calls `value.<method of this format>()` by attribute lookup).

  A holder class with a field typed `Base` compiles, for a format f (json bytes, msgpack, toml, …), the
  method of `Base` for f on demand — for the ANNOTATED class only.  At run time the field may hold an
  instance of any subclass; the call `value.__mashumaro_to_dict_f__()` is an attribute lookup that
  finds the nearest ancestor with a method of its own.  The method compiled for an ancestor knows
  the ancestor's fields only: run on a subclass instance it silently drops the subclass's members.
  The guard `if self.__class__ is not _method_owner:` compiles a method for the instance's own class
  first (fix F32).
-/
import Mashu.DiscrF
namespace Mashu.PackF
open Mashu.Discr Mashu.DiscrF

inductive Event
  | define (c : Cls)
  | compile (fmt : Fmt) (c : Nat)          -- a holder's method for `fmt` is compiled: the annotated class gets its method
  | pack (fmt : Fmt) (c : Nat)             -- an instance of class `c` is packed for `fmt`
  deriving Repr

/-- `by c o`: the instance of `c` was packed by the method compiled for class `o` -/
inductive Outcome
  | packedBy (cls : Nat) (owner : Nat)
  | noMethod                                -- AttributeError: no ancestor has a method for this format
  deriving Repr, DecidableEq

structure State where
  classes : List Cls := []
  compiled : List (Nat × Fmt) := []
  deriving Repr

def step (guard : Bool) (st : State) : Event → State × Option Outcome
  | .define c => ({ st with classes := st.classes ++ [c], compiled := (c.id, 0) :: st.compiled }, none)
  | .compile f c => ({ st with compiled := (c, f) :: st.compiled }, none)
  | .pack f c =>
      match methodOwner st.classes st.compiled f (st.classes.length + 1) c with
      | none => (st, some .noMethod)
      | some o =>
          if o == c then (st, some (.packedBy c c))
          else if guard then ({ st with compiled := (c, f) :: st.compiled }, some (.packedBy c c))
          else (st, some (.packedBy c o))

def run (guard : Bool) : State → List Event → List Outcome
  | _, [] => []
  | st, e :: es =>
      let r := step guard st e
      match r.2 with
      | some o => o :: run guard r.1 es
      | none => run guard r.1 es

end Mashu.PackF
