/-
  Mashu.Share — which containers a serialized / deserialized result shares with its argument
  (pack.py `pack_collection`: `_make_sequence_expression`, `_make_mapping_expression`,
  the ChainMap / tuple / named tuple comprehensions; property C18).

  The decision in the source is a comparison of generated sub-expressions with the string
  "value": a container is handed out as it is only when the expression for its elements is the
  bare variable AND its origin type is listed in `no_copy_collections`; `list` / `dict` not
  listed are `.copy()`-ed; everything else is rebuilt by a comprehension.
-/
import Mashu.Ty
namespace Mashu.Share

/-- `no_copy_collections`, by origin type -/
structure NoCopy where
  list : Bool := false
  set : Bool := false
  frozenset : Bool := false
  deque : Bool := false
  dict : Bool := false
  odict : Bool := false
  counter : Bool := false
  mproxy : Bool := false
  ddict : Bool := false
  deriving Repr, DecidableEq, Inhabited

def NoCopy.hasC (N : NoCopy) : CollO → Bool
  | .list => N.list | .set => N.set | .frozenset => N.frozenset | .deque => N.deque
  | .tuple | .chainmap => false

def NoCopy.hasM (N : NoCopy) : MapO → Bool
  | .dict => N.dict | .odict => N.odict | .counter => N.counter | .mproxy => N.mproxy | .ddict => N.ddict

/-- the packer expression is the bare variable: nothing is converted, nothing is rebuilt -/
def identN (N : NoCopy) : Ty → Bool
  | .any | .none | .bool | .int | .float | .str => true
  | .union ts => allIdent ts
  | .opt t => identN N t                 -- Optional of an identity-packed type needs no None guard
  | .coll o t => N.hasC o && identN N t
  | .map o k t => N.hasM o && identN N k && (o == .counter || identN N t)
  | _ => false
where allIdent : List Ty → Bool
  | [] => true
  | t :: ts => identN N t && allIdent ts

/-- a value with object identities: what matters for sharing -/
inductive SV
  | atom                                                   -- immutable scalar / leaf object / enum member
  | box (id : Nat) (o : String) (items : List SV)           -- list, set, deque, tuple, ChainMap (its maps), instance (its fields)
  | kv (id : Nat) (o : String) (kvs : List (SV × SV))       -- dict, OrderedDict, Counter, …
  deriving Repr, Inhabited

/-- the result, as far as sharing goes -/
inductive OV
  | atom
  | fresh (items : List OV)                                 -- a container created by the serializer
  | ref (v : SV) (t : Ty)                                   -- the very argument object (with everything below it), at a position of type t
  deriving Repr, Inhabited

def asIs (t : Ty) : SV → OV
  | .atom => .atom
  | v => .ref v t

def splitAt' {α} (n : Nat) (l : List α) : List α × List α := (l.take n, l.drop n)

mutual
def packS (N : NoCopy) : Ty → SV → OV
  | .any, v => asIs .any v
  | .none, _ | .bool, _ | .int, _ | .float, _ | .str, _ => .atom
  | .leaf _, _ | .enum _ _, _ | .lit _, _ => .atom
  | .opt t, v =>
      match v with
      | .atom => .atom
      | v => packS N t v
  | .union ts, v => if identN.allIdent N ts then asIs (.union ts) v else .atom   -- non-identity unions: not in the generated space
  | .coll o t, v =>
      match v with
      | .box id oo items => if N.hasC o && identN N t then .ref (.box id oo items) (.coll o t) else .fresh (items.map (packS N t))
      | _ => .atom
  | .map o k t, v =>
      match v with
      | .kv id oo kvs =>
          if N.hasM o && identN N k && (o == .counter || identN N t) then .ref (.kv id oo kvs) (.map o k t)
          else .fresh (kvs.map (fun p => .fresh [packS N k p.1, if o == .counter then .atom else packS N t p.2]))
      | _ => .atom
  | .chain k t, v =>
      match v with
      | .box _ _ maps => .fresh (maps.map (fun m => match m with
          | .kv _ _ kvs => .fresh (kvs.map (fun p => .fresh [packS N k p.1, packS N t p.2]))
          | _ => .atom))
      | _ => .atom
  | .tvar t, v =>
      match v with
      | .box _ _ items => .fresh (items.map (packS N t))
      | _ => .atom
  | .tfix ts, v =>
      match v with
      | .box _ _ items => .fresh (packSL N ts items)
      | _ => .atom
  | .tunp pre mid post, v =>
      match v with
      | .box _ _ items =>
          let a := items.take pre.length
          let rest := items.drop pre.length
          let b := rest.take (rest.length - post.length)
          let c := rest.drop (rest.length - post.length)
          .fresh (packSL N pre a ++ b.map (packS N mid) ++ packSL N post c)
      | _ => .atom
  | .nt _ fs _ _, v =>
      match v with
      | .box _ _ items => .fresh (packSN N fs items)
      | _ => .atom
  | .td _ _ _, _ => .atom                                    -- TypedDict: not in the generated space
  | .dc _ _ fs, v =>
      match v with
      | .box _ _ items => .fresh (packSF N fs items)
      | _ => .atom

def packSL (N : NoCopy) : List Ty → List SV → List OV
  | t :: ts, v :: vs => packS N t v :: packSL N ts vs
  | _, _ => []

def packSN (N : NoCopy) : List (String × Ty) → List SV → List OV
  | (_, t) :: fs, v :: vs => packS N t v :: packSN N fs vs
  | _, _ => []

def packSF (N : NoCopy) : List (FieldDef × Ty) → List SV → List OV
  | (f, t) :: fs, v :: vs => if f.serOmit then packSF N fs vs else packS N t v :: packSF N fs vs
  | _, _ => []
end

/-- the argument objects the result refers to -/
def refs : OV → List (SV × Ty)
  | .atom => []
  | .ref v t => [(v, t)]
  | .fresh items => refsL items
where refsL : List OV → List (SV × Ty)
  | [] => []
  | x :: xs => refs x ++ refsL xs

def SV.id? : SV → Option Nat
  | .atom => none
  | .box id _ _ => some id
  | .kv id _ _ => some id

/-- identities of the argument objects handed out by reference (top of each shared subtree) -/
def refIds (o : OV) : List Nat := (refs o).filterMap (fun p => p.1.id?)

/-- deserialization: every typed container is rebuilt (list(...), comprehension, constructor call);
    only `Any` positions hand the input object on -/
def unpackRefs : Ty → Bool
  | .any => true
  | _ => false

end Mashu.Share
