/-
  Mashu.Dispatch — maps the `op` of a case line to the executable model function.
  Part of the correspondence check, not of any theorem.
-/
import Mashu.Wire
import Mashu.Tz
import Mashu.ToDict
import Mashu.Args
import Mashu.Resolve
import Mashu.Quote
import Mashu.Discr
import Mashu.DiscrF
import Mashu.PackF
import Mashu.DispatchCall
import Mashu.Cache
import Mashu.Lazy
import Mashu.Share
import Mashu.Hooks
import Mashu.Namespace
import Mashu.Schema
import Mashu.Mro
import Mashu.Subst
import Mashu.Generated
open Lean

namespace Mashu
open Mashu.Wire

def getLeaves (j : Json) (k : String) : List Leaf :=
  match j.getObjVal? k with
  | .ok (.arr a) => a.toList.filterMap (fun x => match x with
      | .str s => leafNames.lookup s
      | _ => none)
  | _ => []

def getCx (j : Json) : Cx :=
  { passLeaves := getLeaves j "pass_leaves", noCopyList := getB j "no_copy_list" false, noCopyDict := getB j "no_copy_dict" false, nailed := getB j "nailed" true, ntAsDict := getB j "nt_as_dict" false,
    fixK1 := getB j "fixK1" false, fixK2 := getB j "fixK2" false, fixK10 := getB j "fixK10" false, fixK3 := getB j "fixK3" true }

def coreWith (O : Oracle) (op : String) (j : Json) : Except String Json := do
  let ty ← toTy (j.getObjValD "ty")
  let cx := getCx j
  let fx : Fx := {}
  match op with
  | "pack" => do
      let v ← toV (j.getObjValD "value")
      pure (ofR (pack O cx fx ty v))
  | "unpack" => do
      let v ← toV (j.getObjValD "value")
      pure (ofR (unpack O cx fx ty v))
  | "conf" => do
      let v ← toV (j.getObjValD "value")
      pure (Json.mkObj [("conf", Json.bool (conf ty v))])
  | "roundtrip" => do
      let v ← toV (j.getObjValD "value")
      match pack O cx fx ty v with
      | .ok b => pure (Json.mkObj [("packed", ofV b), ("back", ofR (unpack O cx fx ty b))])
      | .error e => pure (Json.mkObj [("err", ofExc e)])
  | _ => throw s!"unknown op {op}"

def dispatchCore (op : String) (j : Json) : Except String Json := do
  let tbl ← toOracleTable (j.getObjValD "oracle")
  let r1 ← coreWith (tbl.toOracle false) op j
  let r2 ← coreWith (tbl.toOracle true) op j
  if r1.compress == r2.compress then pure r1
  else pure (Json.mkObj [("inconclusive", Json.bool true), ("strict", r1), ("lenient", r2)])

def opt3 (j : Json) : ToDict.Opt3 :=
  match j with
  | .bool b => some b
  | _ => none

def toSources (j : Json) : ToDict.Sources :=
  { callDialect := opt3 (j.getObjValD "callDialect"), configDialect := opt3 (j.getObjValD "configDialect"),
    config := opt3 (j.getObjValD "config"), defaultDialect := opt3 (j.getObjValD "defaultDialect") }

def ofKVs (kvs : List (String × V)) : Json :=
  .arr (kvs.map (fun kv => Json.arr #[Json.str kv.1, ofV kv.2])).toArray

/-- C08: the generated to_dict (implementation model) and its specification -/
def dispatchToDict (j : Json) : Except String Json := do
  let order := Mashu.Generated.optionLookupOrder
  let sOn := toSources (j.getObjValD "omit_none")
  let sOd := toSources (j.getObjValD "omit_default")
  let sBa := toSources (j.getObjValD "serialize_by_alias")
  let passed : ToDict.Passed := { omitNone := opt3 (j.getObjValD "kw_omit_none"), byAlias := opt3 (j.getObjValD "kw_by_alias") }
  let b : ToDict.Build :=
    { omitNone := ToDict.resolve order sOn, omitDefault := ToDict.resolve order sOd, sba := ToDict.resolve order sBa,
      omitNoneFeature := getB j "omit_none_flag", byAliasFeature := getB j "by_alias_flag", sortKeys := getB j "sort_keys" }
  let fvs ← (← arr (j.getObjValD "fields")).toList.mapM (fun f => do
    let name ← str (f.getObjValD "name")
    let alias : Option String := match f.getObjValD "alias" with | .str s => some s | _ => none
    let dflt ← optV (f.getObjValD "default")
    let fs : ToDict.FieldS := { name := name, alias := alias, nullable := getB f "nullable", identPacker := getB f "ident",
                                default := dflt, skip := getB f "skip" }
    let fv : ToDict.FieldV := { raw := (← toV (f.getObjValD "raw")), packed := (← toV (f.getObjValD "packed")) }
    pure (fs, fv))
  let eqT ← (match j.getObjVal? "eq" with
    | .ok c => do
        (← arr c).toList.mapM (fun e => do
          let e ← arr e
          pure ((← toV e[0]!), (← toV e[1]!), (← bool e[2]!)))
    | .error _ => pure [])
  let eq : ToDict.PyEq := fun a b =>
    match eqT.find? (fun e => e.1 == a && e.2.1 == b) with
    | some e => e.2.2
    | none => a == b
  let viaDialect := getB j "via_call_dialect"
  let kwImpl := if viaDialect then ToDict.forwardedKw order sOn sBa passed else ToDict.specKw order sOn sBa passed
  -- the specification side uses the precedence the STATEMENT fixes (keyword > call dialect > Config.dialect >
  -- Config > default dialect), not the order read from the source on this run
  let specOrder := ["callDialect", "configDialect", "config", "defaultDialect"]
  let bSpec : ToDict.Build :=
    { b with omitNone := ToDict.resolve specOrder sOn, omitDefault := ToDict.resolve specOrder sOd, sba := ToDict.resolve specOrder sBa }
  let kwSpec := ToDict.specKw specOrder sOn sBa passed
  pure (Json.mkObj [("impl", ofKVs (ToDict.toDictImpl eq b kwImpl fvs)),
                    ("spec", ofKVs (ToDict.project eq (ToDict.effective bSpec kwSpec) fvs))])

/-- C07: static argument assembly of the generated constructor call and Python's binding of it -/
def dispatchArgs (j : Json) : Except String Json := do
  let fs ← (← arr (j.getObjValD "layout")).toList.mapM (fun f => do
    pure ({ name := (← str (f.getObjValD "name")), hasDefault := getB f "has_default", kwOnly := getB f "kw_only",
            init := getB f "init" true, kwSeen := opt3 (f.getObjValD "kw_seen") } : Args.FieldL))
  let present ← (← arr (j.getObjValD "present")).toList.mapM str
  let a := Args.assemble fs false false
  let b := Args.bind fs (a.1.map (fun n => n)) (a.2.map (fun n => (n, n)) ++ present.map (fun n => (n, n)))
  let bj : Json := match b with
    | some asg => Json.arr (asg.map (fun kv => Json.arr #[Json.str kv.1, Json.str kv.2])).toArray
    | none => Json.null
  pure (Json.mkObj [("pos", Json.arr (a.1.map Json.str).toArray), ("kw", Json.arr (a.2.map Json.str).toArray), ("bind", bj)])

/-- C10 (generic fields): `substitute_type_params` on a type expression -/
partial def toGTy (j : Json) : Except String Subst.GTy := do
  let a ← arr j
  match a[0]! with
  | .str "var" => (match a[1]! with | .num n => pure (.var n.mantissa.toNat) | _ => throw "bad var")
  | .str "app" => do pure (.app (← str a[1]!) (← (← arr a[2]!).toList.mapM toGTy))
  | .str "ann" => do pure (.ann (← toGTy a[1]!) (← str a[2]!))
  | _ => throw "bad GTy"

partial def ofGTy : Subst.GTy → Json
  | .var n => Json.arr #[Json.str "var", Json.num (JsonNumber.fromNat n)]
  | .app c as => Json.arr #[Json.str "app", Json.str c, Json.arr (as.map ofGTy).toArray]
  | .ann i t => Json.arr #[Json.str "ann", ofGTy i, Json.str t]

def dispatchSubst (j : Json) : Except String Json := do
  let t ← toGTy (j.getObjValD "ty")
  let σ ← (← arr (j.getObjValD "sigma")).toList.mapM (fun e => do
    let a ← arr e
    let n ← (match a[0]! with | .num n => pure n.mantissa.toNat | _ => throw "bad var")
    pure (n, (← toGTy a[1]!)))
  pure (Json.mkObj [("impl", ofGTy (Subst.substImpl Generated.substAnnotatedRecursive σ t)),
                    ("spec", ofGTy (Subst.subst σ t))])

/-- C10 (generic classes): which parameter each argument of `C[...]` binds -/
def dispatchBindParams (j : Json) : Except String Json := do
  let nats (x : Json) : Except String (List Nat) := do
    (← arr x).toList.mapM (fun e => match e with | .num n => pure n.mantissa.toNat | _ => throw "bad nat")
  let own ← nats (j.getObjValD "own")
  let collected ← nats (j.getObjValD "collected")
  pure (Json.mkObj [("order", Json.arr ((Subst.paramOrder (getB j "own_first" Generated.typeParamsFollowOwnList) own collected).map (fun n => Json.num (JsonNumber.fromNat n))).toArray)])

/-- C10: which customization level applies -/
def dispatchResolve (j : Json) : Except String Json := do
  let toM (x : Json) : Option Resolve.M := match x with
    | .str "pass" => some .pass
    | .str t => some (.fn t)
    | _ => none
  let toReg (x : Json) : Option Resolve.Reg := match x with
    | .null => none
    | o => some { ser := toM (o.getObjValD "ser"), de := toM (o.getObjValD "de") }
  let keyedJ := j.getObjValD "keyed"
  let L : Resolve.Levels :=
    { fieldSer := toM (j.getObjValD "field_ser"), fieldDe := toM (j.getObjValD "field_de"),
      fieldStrategy := toReg (j.getObjValD "field_strategy"),
      keyed := fun k s => toReg ((keyedJ.getObjValD k).getObjValD s) }
  let ofM (m : Option Resolve.M) : Json := match m with
    | some (.fn t) => Json.str t
    | some .pass => Json.str "pass"
    | none => Json.null
  let ko := Mashu.Generated.typeKeyOrderPack
  let ku := Mashu.Generated.typeKeyOrderUnpack
  let so := Mashu.Generated.strategySourceOrder
  pure (Json.mkObj [("ser", ofM (Resolve.resolveImpl ko so .ser L)), ("de", ofM (Resolve.resolveImpl ku so .de L)),
                    ("spec_ser", ofM (Resolve.resolveSpec .ser L)), ("spec_de", ofM (Resolve.resolveSpec .de L))])

/-- C12: discriminated unions over a history of define / decode events -/
def dispatchDiscr (op : String) (j : Json) : Except String Json := do
  let nat (x : Json) : Except String Nat := match x with
    | .num n => if n.exponent == 0 && n.mantissa ≥ 0 then pure n.mantissa.toNat else throw "bad nat"
    | _ => throw "bad nat"
  let optNat (x : Json) : Except String (Option Nat) := match x with
    | .null => pure none
    | y => do pure (some (← nat y))
  let optStr (x : Json) : Except String (Option String) := match x with
    | .str t => pure (some t)
    | .null => pure none
    | _ => throw "bad tag"
  let toCls (x : Json) : Except String Discr.Cls := do
    let a ← arr x
    pure { id := ← nat a[0]!, parent := ← optNat a[1]!, tag := ← optStr a[2]! }
  let ofO (o : Discr.Outcome) : Json := match o with
    | .inst c => Json.str s!"inst:{c}"
    | .missingDiscriminator => Json.str "missing"
    | .noVariant => Json.str "novariant"
  let sup : Discr.Mode := { sub := getB j "subtypes" true, sup := getB j "supertypes" }
  match op with
  | "discr" => do
      let evs ← (← arr (j.getObjValD "events")).toList.mapM (fun e => do
        match e.getObjVal? "d" with
        | .ok c => do pure (Discr.Event.define (← toCls c))
        | .error _ => do
            let a ← arr (e.getObjValD "q")
            pure (Discr.Event.decode (← nat a[0]!) (← optStr a[1]!)))
      pure (Json.mkObj [("impl", Json.arr ((Discr.run sup {} evs).map ofO).toArray),
                        ("spec", Json.arr ((Discr.runSpec sup [] evs).map ofO).toArray)])
  | "discrf" => do
      let evs ← (← arr (j.getObjValD "events")).toList.mapM (fun e => do
        match e.getObjVal? "d" with
        | .ok c => do pure (DiscrF.Event.define (← toCls c))
        | .error _ => do
            let a ← arr (e.getObjValD "q")
            pure (DiscrF.Event.decode (← nat a[0]!) (← nat a[1]!) (← optStr a[2]!)))
      let shared := getB j "shared" (!Generated.subtypeRegistryPerFormat)
      let ofF (o : DiscrF.Outcome) : Json := match o with
        | .inst c b => Json.str s!"inst:{c}:{b}"
        | .missingDiscriminator => Json.str "missing"
        | .noVariant => Json.str "novariant"
      -- the state after every event: which classes have a method of their own per format
      let states := (List.range (evs.length + 1)).map (fun k => DiscrF.exec shared sup {} (evs.take k))
      let comp (st : DiscrF.State) : Json :=
        Json.arr ((st.compiled.map (fun e => Json.arr #[Json.num (JsonNumber.fromNat e.1), Json.num (JsonNumber.fromNat e.2)])).toArray)
      pure (Json.mkObj [("outs", Json.arr ((DiscrF.run shared sup {} evs).map ofF).toArray),
                        ("compiled", Json.arr ((states.drop 1).map comp).toArray)])
  | _ => do
      let cs ← (← arr (j.getObjValD "classes")).toList.mapM toCls
      let acc ← (← arr (j.getObjValD "accepts")).toList.mapM nat
      let root ← nat (j.getObjValD "root")
      pure (Json.mkObj [("out", ofO (Discr.noField cs root sup (fun c => acc.contains c)))])

/-- C13: dialect caches over a history of class definitions and calls; Dialect.merge -/
def dispatchCache (op : String) (j : Json) : Except String Json := do
  let nat (x : Json) : Except String Nat := match x with
    | .num n => if n.exponent == 0 && n.mantissa ≥ 0 then pure n.mantissa.toNat else throw "bad nat"
    | _ => throw "bad nat"
  let optNat (x : Json) : Except String (Option Nat) := match x with
    | .null => pure none
    | y => do pure (some (← nat y))
  let toSlot (x : Json) : Except String Cache.Slot := do
    let a ← arr x
    pure { fmt := ← str a[0]!, unpack := ← bool a[1]! }
  let toM (x : Json) : Option Cache.M := match x with
    | .str "pass" => some .pass
    | .str t => some (.fn t)
    | _ => none
  let ofM (m : Option Cache.M) : Json := match m with
    | some (.fn t) => Json.str t
    | some .pass => Json.str "pass"
    | none => Json.null
  let toDialect (x : Json) : Except String Cache.Dialect := do
    let opts ← (← arr (x.getObjValD "opts")).toList.mapM (fun e => do
      let a ← arr e
      pure ((← str a[0]!), (← str a[1]!)))
    let strat ← (← arr (x.getObjValD "strat")).toList.mapM (fun e => do
      let a ← arr e
      pure ((← str a[0]!), ({ whole := ← bool a[1]!, ser := toM a[2]!, de := toM a[3]! } : Cache.Reg)))
    pure { opts := opts, strat := strat }
  match op with
  | "cache" => do
      let evs ← (← arr (j.getObjValD "events")).toList.mapM (fun e => do
        match e.getObjVal? "d" with
        | .ok c => do
            let a ← arr c
            let slots ← (← arr a[3]!).toList.mapM toSlot
            pure (Cache.Event.define (← nat a[0]!) (← optNat a[1]!) (← bool a[2]!) slots)
        | .error _ => do
            let a ← arr (e.getObjValD "q")
            pure (Cache.Event.call (← nat a[0]!) (← toSlot a[1]!) (← optNat a[2]!)))
      let ofO (o : Cache.Out) : Json := match o with
        | .defined => Json.str "defined"
        | .ran m => Json.str (match m.dialect with
            | some d => s!"ran:{m.cls}:{d}"
            | none => s!"ran:{m.cls}:-")
        | .noSuchMethod => Json.str "nomethod"
      pure (Json.mkObj [("impl", Json.arr ((Cache.run Mashu.Generated.cacheGuardOwnDict [] evs).map ofO).toArray),
                        ("spec", Json.arr ((Cache.runSpec [] evs).map ofO).toArray)])
  | _ => do
      let mine ← toDialect (j.getObjValD "mine")
      let other ← toDialect (j.getObjValD "other")
      let m := Cache.merge Mashu.Generated.mergeKeys mine other
      let stackedOpts := Mashu.Generated.dialectOptions.filterMap (fun o => (Cache.stacked other mine o).map (fun v => (o, v)))
      pure (Json.mkObj [
        ("opts", Json.arr (m.opts.map (fun kv => Json.arr #[Json.str kv.1, Json.str kv.2])).toArray),
        ("stacked", Json.arr (stackedOpts.map (fun kv => Json.arr #[Json.str kv.1, Json.str kv.2])).toArray),
        ("strat", Json.arr (m.strat.map (fun e => Json.arr #[Json.str e.1, ofM e.2.ser, ofM e.2.de])).toArray)])

/-- C14: one class slot over a history of calls / resolution events, lazy vs eager -/
def dispatchLazy (j : Json) : Except String Json := do
  let optStr (x : Json) : Option String := match x with | .str t => some t | _ => none
  let optNat (x : Json) : Option Nat := match x with
    | .num n => if n.exponent == 0 && n.mantissa ≥ 0 then some n.mantissa.toNat else none
    | _ => none
  let pj := j.getObjValD "params"
  let p : Lazy.Params := { fmt := (optStr (pj.getObjValD "fmt")).getD "dict", coder := optStr (pj.getObjValD "coder"),
                            coderKwargs := optStr (pj.getObjValD "coder_kwargs"), defaultDialect := optNat (pj.getObjValD "default_dialect") }
  let k : Lazy.Cls := { lazyCompilation := getB j "lazy", cfgAllowPostponed := getB j "cfg_allow_postponed" true,
                        support := getB j "support", unpack := getB j "unpack", p := p }
  let T : Lazy.Tables :=
    { condsUnpack := Mashu.Generated.lazyStubCondsUnpack, condsPack := Mashu.Generated.lazyStubCondsPack,
      reraiseUnpack := Mashu.Generated.lazyReraiseUnpack, reraisePack := Mashu.Generated.lazyReraisePack,
      kwargsUnpack := Mashu.Generated.lazyKwargsUnpack, kwargsPack := Mashu.Generated.lazyKwargsPack,
      forwardCoder := Mashu.Generated.lazyForwardCoder, stubAllowPostponed := Mashu.Generated.lazyStubAllowPostponed }
  let r0 := getB j "resolvable" true
  let evs ← (← arr (j.getObjValD "events")).toList.mapM (fun e => do
    match e with
    | .str "resolve" => pure Lazy.Event.resolve
    | o => pure (Lazy.Event.call { dialect := optNat (o.getObjValD "dialect"), coder := optStr (o.getObjValD "coder") }))
  let ofOpt (x : Option String) : Json := match x with | some t => Json.str t | none => Json.null
  let ofOptN (x : Option Nat) : Json := match x with | some t => Json.num (JsonNumber.fromNat t) | none => Json.null
  let ofO (o : Lazy.Out) : Json := match o with
    | .ran f dd kw d c => Json.mkObj [("ran", Json.arr #[Json.str f, ofOptN dd, ofOpt kw, ofOptN d, ofOpt c])]
    | .unresolved => Json.str "unresolved"
    | .typeError => Json.str "typeerror"
    | .diverged => Json.str "diverged"
  match Lazy.define T k r0 with
  | none => pure (Json.mkObj [("impl", Json.str "define-raises"), ("spec", Json.arr ((Lazy.runSpec k r0 evs).map ofO).toArray)])
  | some st => pure (Json.mkObj [("impl", Json.arr ((Lazy.run T k 8 st evs).map ofO).toArray),
                                 ("spec", Json.arr ((Lazy.runSpec k r0 evs).map ofO).toArray)])

/-- C18: which argument objects the serialized result refers to -/
partial def toSV (j : Json) : Except String Share.SV := do
  match j with
  | .arr a =>
    match a[0]! with
    | .str "atom" => pure .atom
    | .str "box" => do
        let id ← (match a[1]! with | .num n => pure n.mantissa.toNat | _ => throw "bad id")
        let items ← (← arr a[3]!).toList.mapM toSV
        pure (.box id (← str a[2]!) items)
    | .str "kv" => do
        let id ← (match a[1]! with | .num n => pure n.mantissa.toNat | _ => throw "bad id")
        let kvs ← (← arr a[3]!).toList.mapM (fun p => do
          let p ← arr p
          pure ((← toSV p[0]!), (← toSV p[1]!)))
        pure (.kv id (← str a[2]!) kvs)
    | _ => throw "bad SV"
  | _ => throw "bad SV"

def dispatchShare (j : Json) : Except String Json := do
  let ty ← toTy (j.getObjValD "ty")
  let v ← toSV (j.getObjValD "value")
  let nj := j.getObjValD "no_copy"
  let N : Share.NoCopy := { list := getB nj "list", set := getB nj "set", frozenset := getB nj "frozenset", deque := getB nj "deque",
                            dict := getB nj "dict", odict := getB nj "odict", counter := getB nj "counter", mproxy := getB nj "mproxy", ddict := getB nj "ddict" }
  let ids := Share.refIds (Share.packS N ty v)
  pure (Json.mkObj [("shared", Json.arr (ids.map (fun n => Json.num (JsonNumber.fromNat n))).toArray)])

/-- C19: hook traces -/
partial def toHT (j : Json) : Except String Hooks.HT := do
  match j with
  | .str "leaf" => pure .leaf
  | .arr a =>
    match a[0]! with
    | .str "dc" => do
        let fs ← (← arr a[2]!).toList.mapM (fun p => do
          let p ← arr p
          pure ((← str p[0]!), (← toHT p[1]!)))
        pure (.dc (← str a[1]!) fs)
    | .str "list" => do pure (.list (← toHT a[1]!))
    | .str "tup" => do pure (.tup (← (← arr a[1]!).toList.mapM toHT))
    | .str "union" => do pure (.union (← (← arr a[1]!).toList.mapM toHT))
    | _ => throw "bad HT"
  | _ => throw "bad HT"

partial def toHV (j : Json) : Except String Hooks.HV := do
  match j with
  | .str "leaf" => pure .leaf
  | .arr a =>
    match a[0]! with
    | .str "inst" => do
        let uid ← (match a[2]! with | .num n => pure n.mantissa.toNat | _ => throw "bad uid")
        let fs ← (← arr a[3]!).toList.mapM (fun p => do
          let p ← arr p
          pure ((← str p[0]!), (← toHV p[1]!)))
        pure (.inst (← str a[1]!) uid fs)
    | .str "list" => do pure (.list (← (← arr a[1]!).toList.mapM toHV))
    | _ => throw "bad HV"
  | _ => throw "bad HV"

def dispatchHooks (j : Json) : Except String Json := do
  let t ← toHT (j.getObjValD "ty")
  let v ← toHV (j.getObjValD "value")
  let cj := j.getObjValD "classes"
  let H : Hooks.Table := fun c =>
    let o := cj.getObjValD c
    { preSer := getB o "pre_ser", postSer := getB o "post_ser", preDe := getB o "pre_de", postDe := getB o "post_de", ctx := getB o "ctx" }
  let ofK (k : Hooks.Kind) : String := match k with
    | .preSer => "pre_ser" | .postSer => "post_ser" | .preDe => "pre_de" | .postDe => "post_de"
  let ofEv (e : Hooks.Ev) : Json := Json.arr #[Json.str (ofK e.kind), Json.str e.cls, Json.num (JsonNumber.fromNat e.uid), Json.bool e.ctx]
  let c := getB j "context"
  if getB j "decode" then
    let r := Hooks.unpackT H t v
    pure (Json.mkObj [("impl", Json.arr (r.1.map ofEv).toArray), ("ok", Json.bool r.2), ("spec", Json.arr ((Hooks.travD H t v).map ofEv).toArray)])
  else
    let r := Hooks.packT H (getB j "nailed") c t v
    pure (Json.mkObj [("impl", Json.arr (r.1.map ofEv).toArray), ("ok", Json.bool r.2), ("spec", Json.arr ((Hooks.trav H c v).map ofEv).toArray)])

def natList (j : Json) : Except String (List Nat) := do
  (← arr j).toList.mapM (fun x => match x with
    | .num n => if n.exponent == 0 && n.mantissa ≥ 0 then pure n.mantissa.toNat else throw "bad code point"
    | _ => throw "bad code point")

/-- C06 / C20: the schema document the model predicts -/
partial def schToJson : Schema.Sch → Json
  | .any => Json.mkObj []
  | .typ t fmt =>
      let tn := match t with
        | .null => "null" | .boolean => "boolean" | .integer => "integer" | .number => "number" | .string => "string"
      Json.mkObj ([("type", Json.str tn)] ++ (match fmt with | some f => [("format", Json.str f)] | none => []))
  | .utc => Json.mkObj [("type", Json.str "string"), ("pattern", Json.str Mashu.Generated.utcPatternSchema)]
  | .enum vals c =>
      match vals, c with
      | [v], true => Json.mkObj [("const", ofV v)]
      | _, _ => Json.mkObj [("enum", Json.arr (vals.map ofV).toArray)]
  | .anyOf ss => Json.mkObj [("anyOf", Json.arr (ss.map schToJson).toArray)]
  | .arrOf items u =>
      Json.mkObj ([("type", Json.str "array")]
        ++ (match items with | .any => [] | s => [("items", schToJson s)])
        ++ (if u then [("uniqueItems", Json.bool true)] else []))
  | .tupleOf pre =>
      if pre.isEmpty then Json.mkObj [("type", Json.str "array"), ("maxItems", Json.num 0)]
      else Json.mkObj [("type", Json.str "array"), ("prefixItems", Json.arr (pre.map schToJson).toArray),
                       ("minItems", Json.num (JsonNumber.fromNat pre.length)), ("maxItems", Json.num (JsonNumber.fromNat pre.length))]
  | .mapOf names vals =>
      Json.mkObj ([("type", Json.str "object")]
        ++ (match vals with | .any => [] | s => [("additionalProperties", schToJson s)])
        ++ (match names with | .any => [] | s => [("propertyNames", schToJson s)]))
  | .record title props req =>
      Json.mkObj ([("type", Json.str "object")]
        ++ (match title with | some t => [("title", Json.str t)] | none => [])
        ++ (if props.isEmpty then [] else [("properties", Json.mkObj (props.map (fun p => (p.1, schToJson p.2))))])
        ++ [("additionalProperties", Json.bool false)]
        ++ (if req.isEmpty then [] else [("required", Json.arr (req.map Json.str).toArray)]))

def dispatchSchema (j : Json) : Except String Json := do
  let ty ← toTy (j.getObjValD "ty")
  pure (Json.mkObj [("schema", schToJson (Schema.schemaOf (getB j "nt_as_dict") ty))])

/-- C17: replay of the registrations of one builder; clean_id -/
def dispatchNamespace (op : String) (j : Json) : Except String Json := do
  match op with
  | "namespace" => do
      let regs ← (← arr (j.getObjValD "regs")).toList.mapM (fun e => do
        let a ← arr e
        let o ← (match a[1]! with | .num n => pure n.mantissa.toNat | _ => throw "bad obj")
        pure ((← str a[0]!), o))
      let g := Namespace.register [] regs
      pure (Json.mkObj [("globals", Json.arr (g.map (fun kv => Json.arr #[Json.str kv.1, Json.num (JsonNumber.fromNat kv.2)])).toArray)])
  | _ => do
      let s ← natList (j.getObjValD "s")
      let word ← natList (j.getObjValD "word")
      let digit ← natList (j.getObjValD "digit")
      let idc ← natList (j.getObjValD "idcont")
      let r := Namespace.cleanId (fun c => word.contains c.toNat) (fun c => digit.contains c.toNat) (fun c => idc.contains c.toNat) (s.map Char.ofNat)
      pure (Json.mkObj [("id", Json.arr (r.map (fun c => Json.num (JsonNumber.fromNat c.toNat))).toArray)])

/-- C16: repr and the literal lexer on code points -/
def dispatchQuote (op : String) (j : Json) : Except String Json := do
  let s ← natList (j.getObjValD "s")
  match op with
  | "pyrepr" => do
      let printable ← natList (j.getObjValD "printable")
      let r := Quote.pyRepr (fun c => printable.contains c) s
      pure (Json.mkObj [("repr", Json.arr (r.map (fun n => Json.num (JsonNumber.fromNat n))).toArray)])
  | _ => do
      match Quote.lexLit s with
      | some (v, rest) =>
          pure (Json.mkObj [("value", Json.arr (v.map (fun n => Json.num (JsonNumber.fromNat n))).toArray),
                            ("rest", Json.arr (rest.map (fun n => Json.num (JsonNumber.fromNat n))).toArray)])
      | none => pure (Json.mkObj [("value", Json.null)])

def dispatch (j : Json) : Except String Json := do
  let op ← str (j.getObjValD "op")
  match op with
  | "tzparse" => do
      let s ← str (j.getObjValD "s")
      match Mashu.Tz.parseTz s.toList with
      | some m => pure (Json.mkObj [("minutes", Json.num (Lean.JsonNumber.fromInt m))])
      | none => pure (Json.mkObj [("minutes", Json.null)])
  | "pack" | "unpack" | "roundtrip" | "conf" => dispatchCore op j
  | "todict" => dispatchToDict j
  | "args" => dispatchArgs j
  | "resolve" => dispatchResolve j
  | "subst" => dispatchSubst j
  | "bindparams" => dispatchBindParams j
  | "pyrepr" | "pylex" => dispatchQuote op j
  | "discr" | "discrnf" | "discrf" => dispatchDiscr op j
  | "cache" | "merge" => dispatchCache op j
  | "lazy" => dispatchLazy j
  | "share" => dispatchShare j
  | "hooks" => dispatchHooks j
  | "namespace" | "cleanid" => dispatchNamespace op j
  | "schema" => dispatchSchema j
  | "dispatchcall" => do
      let behs ← (← arr (j.getObjValD "beh")).toList.mapM (fun b => match b with
        | .str "returns" => pure DispatchCall.Beh.returns
        | .str "key" => pure (DispatchCall.Beh.raises .key)
        | .str "attr" => pure (DispatchCall.Beh.raises .attr)
        | .str "other" => pure (DispatchCall.Beh.raises .other)
        | _ => throw "bad beh")
      let beh (k : Nat) : DispatchCall.Beh := (behs[k]?).getD (behs.getLastD .returns)
      let o := DispatchCall.dispatch (getB j "lookup_only" Generated.dispatchGuardsLookupOnly) (getB j "registered" false) (getB j "exists" true) beh
      let res : String := match o.result with
        | .value => "value"
        | .raised .key => "raised:key"
        | .raised .attr => "raised:attr"
        | .raised .other => "raised:other"
        | .notFound => "notfound"
      pure (Json.mkObj [("invocations", Json.num (JsonNumber.fromNat o.invocations)), ("result", Json.str res)])
  | "packf" => do
      let nat (x : Json) : Except String Nat := match x with
        | .num n => pure n.mantissa.toNat
        | _ => throw "bad nat"
      let evs ← (← arr (j.getObjValD "events")).toList.mapM (fun e => do
        match e.getObjVal? "d" with
        | .ok c => do
            let a ← arr c
            let par : Option Nat ← (match a[1]! with | .null => pure none | x => do pure (some (← nat x)))
            pure (PackF.Event.define { id := ← nat a[0]!, parent := par, tag := none })
        | .error _ =>
          match e.getObjVal? "h" with
          | .ok b => do pure (PackF.Event.compile 1 (← nat b))
          | .error _ => do
              let a ← arr (e.getObjValD "p")
              pure (PackF.Event.pack 1 (← nat a[1]!)))
      let guard := getB j "guard" (if getB j "plain" false then Generated.packOwnerGuardPlain else Generated.packOwnerGuard)
      let ofP (o : PackF.Outcome) : Json := match o with
        | .packedBy c o => Json.str s!"by:{c}:{o}"
        | .noMethod => Json.str "nomethod"
      let stateAfter (k : Nat) : PackF.State := (evs.take k).foldl (fun st e => (PackF.step guard st e).1) {}
      let own (st : PackF.State) : Json :=
        Json.arr (((st.compiled.filter (fun e => e.2 == 1)).map (fun e => Json.num (JsonNumber.fromNat e.1))).toArray)
      pure (Json.mkObj [("outs", Json.arr ((PackF.run guard {} evs).map ofP).toArray),
                        ("own", Json.arr (((List.range evs.length).map (fun k => own (stateAfter (k + 1)))).toArray))])
  | "mro" => do
      let dictOf (e : Json) : Except String Mro.Dict := do
        (← arr e).toList.mapM (fun kv => do
          let a ← arr kv
          let o ← (match a[1]! with | .num n => pure n.mantissa.toNat | _ => throw "bad id")
          pure ((← str a[0]!), o))
      let ancs ← (← arr (j.getObjValD "ancs")).toList.mapM (fun e => match e with
        | .null => pure (none : Option Mro.Dict)
        | e => do pure (some (← dictOf e)))
      let own ← (← arr (j.getObjValD "own")).toList.mapM (fun kv => do
        let a ← arr kv
        let o : Mro.Own ← (match a[1]! with | .num n => pure (Mro.Own.field n.mantissa.toNat) | .null => pure Mro.Own.plain | _ => throw "bad own")
        pure ((← str a[0]!), o))
      let keys ← (← arr (j.getObjValD "keys")).toList.mapM str
      let d := Mro.collect Generated.mroFarthestFirst ancs own
      let enc (o : Option Nat) : Json := match o with | some n => Json.num (JsonNumber.fromNat n) | none => Json.null
      pure (Json.mkObj [("view", Json.arr (keys.map (fun k => enc (Mro.get d k))).toArray),
                        ("spec", Json.arr (keys.map (fun k => enc (Mro.spec ancs own k))).toArray),
                        ("order", Json.arr (d.map (fun kv => Json.str kv.1)).toArray)])
  | _ => throw s!"unknown op {op}"

end Mashu
