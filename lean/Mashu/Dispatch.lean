/-
  Mashu.Dispatch — maps the `op` of a case line to the executable model function.
  Part of the correspondence check, not of any theorem.
-/
import Mashu.Wire
import Mashu.Tz
open Lean

namespace Mashu
open Mashu.Wire

def getLeaves (j : Json) (k : String) : List Leaf :=
  match j.getObjVal? k with
  | .ok (.arr a) => a.toList.filterMap (fun x => match x with
      | .str s => leafNames.lookup s
      | _ => none)
  | _ => []

def getCx (j : Json) : Cx :=
  { passLeaves := getLeaves j "pass_leaves", noCopyList := getB j "no_copy_list" false, noCopyDict := getB j "no_copy_dict" false, nailed := getB j "nailed" true, ntAsDict := getB j "nt_as_dict" false,
    fixK1 := getB j "fixK1" false, fixK2 := getB j "fixK2" false, fixK10 := getB j "fixK10" false, fixK3 := getB j "fixK3" false }

def coreWith (O : Oracle) (op : String) (j : Json) : Except String Json := do
  let ty ← toTy (j.getObjValD "ty")
  let cx := getCx j
  let fx : Fx := {}
  match op with
  | "pack" => do
      let v ← toV (j.getObjValD "value")
      pure (ofR (pack O cx fx ty v))
  | "unpack" => do
      let v ← toV (j.getObjValD "value")
      pure (ofR (unpack O cx fx ty v))
  | "conf" => do
      let v ← toV (j.getObjValD "value")
      pure (Json.mkObj [("conf", Json.bool (conf ty v))])
  | "roundtrip" => do
      let v ← toV (j.getObjValD "value")
      match pack O cx fx ty v with
      | .ok b => pure (Json.mkObj [("packed", ofV b), ("back", ofR (unpack O cx fx ty b))])
      | .error e => pure (Json.mkObj [("err", ofExc e)])
  | _ => throw s!"unknown op {op}"

def dispatchCore (op : String) (j : Json) : Except String Json := do
  let tbl ← toOracleTable (j.getObjValD "oracle")
  let r1 ← coreWith (tbl.toOracle false) op j
  let r2 ← coreWith (tbl.toOracle true) op j
  if r1.compress == r2.compress then pure r1
  else pure (Json.mkObj [("inconclusive", Json.bool true), ("strict", r1), ("lenient", r2)])

def dispatch (j : Json) : Except String Json := do
  let op ← str (j.getObjValD "op")
  match op with
  | "tzparse" => do
      let s ← str (j.getObjValD "s")
      match Mashu.Tz.parseTz s.toList with
      | some m => pure (Json.mkObj [("minutes", Json.num (Lean.JsonNumber.fromInt m))])
      | none => pure (Json.mkObj [("minutes", Json.null)])
  | "pack" | "unpack" | "roundtrip" | "conf" => dispatchCore op j
  | _ => throw s!"unknown op {op}"

end Mashu
