/-
  Mashu.Quote — Python's `repr()` of a str and CPython's lexer for (short, unprefixed) string
  literals, on code points.  A schema-supplied string spliced into generated source with `!r`
  is a literal produced by `pyRepr`; what the compiled code sees is what `lexLit` reads back.
-/
namespace Mashu.Quote

/- a code point is a `Nat`, 0 … 0x10FFFF (surrogates allowed, as in Python str) -/

def hexDigit (n : Nat) : Nat := if n < 10 then 48 + n else 87 + n      -- '0'..'9', 'a'..'f'

def hexVal (c : Nat) : Option Nat :=
  if 48 ≤ c ∧ c ≤ 57 then some (c - 48)
  else if 97 ≤ c ∧ c ≤ 102 then some (c - 87)
  else if 65 ≤ c ∧ c ≤ 70 then some (c - 55)
  else none

/-- one character of `repr`, for the chosen quote character `q` (39 = ' or 34 = ") -/
def escOne (pr : Nat → Bool) (q : Nat) (c : Nat) : List Nat :=
  if c = q ∨ c = 92 then [92, c]
  else if c = 9 then [92, 116]
  else if c = 10 then [92, 110]
  else if c = 13 then [92, 114]
  else if c < 32 ∨ c = 127 then [92, 120, hexDigit (c / 16), hexDigit (c % 16)]
  else if c < 127 then [c]
  else if pr c then [c]
  else if c < 256 then [92, 120, hexDigit (c / 16), hexDigit (c % 16)]
  else if c < 65536 then
    [92, 117, hexDigit (c / 4096 % 16), hexDigit (c / 256 % 16), hexDigit (c / 16 % 16), hexDigit (c % 16)]
  else
    [92, 85, hexDigit (c / 268435456 % 16), hexDigit (c / 16777216 % 16), hexDigit (c / 1048576 % 16),
      hexDigit (c / 65536 % 16), hexDigit (c / 4096 % 16), hexDigit (c / 256 % 16), hexDigit (c / 16 % 16),
      hexDigit (c % 16)]

/-- `repr` prefers single quotes, and switches to double quotes when the string contains a
    single quote and no double quote -/
def chooseQuote (s : List Nat) : Nat :=
  if s.contains 39 ∧ ¬ s.contains 34 then 34 else 39

def pyRepr (pr : Nat → Bool) (s : List Nat) : List Nat :=
  let q := chooseQuote s
  q :: (s.flatMap (escOne pr q) ++ [q])

def hex2 (a b : Nat) : Option Nat := do
  let x ← hexVal a
  let y ← hexVal b
  pure (x * 16 + y)

def hex4 (a b c d : Nat) : Option Nat := do
  let x ← hex2 a b
  let y ← hex2 c d
  pure (x * 256 + y)

/-- the body of a short string literal opened with quote `q`: the string it denotes and the
    source text that follows the closing quote.  `none` = SyntaxError.
    (`\N{…}` and octal escapes, which `repr` never produces, are rejected / kept simple.) -/
def lexBody (q : Nat) : Nat → List Nat → Option (List Nat × List Nat)
  | 0, _ => none
  | _ + 1, [] => none                              -- unterminated literal
  | fuel + 1, c :: rest =>
      if c = q then some ([], rest)
      else if c = 10 then none                     -- raw newline inside a short literal
      else if c = 92 then
        match rest with
        | [] => none
        | 10 :: r => lexBody q fuel r              -- backslash-newline: line continuation
        | 92 :: r => (lexBody q fuel r).map (fun p => (92 :: p.1, p.2))
        | 39 :: r => (lexBody q fuel r).map (fun p => (39 :: p.1, p.2))
        | 34 :: r => (lexBody q fuel r).map (fun p => (34 :: p.1, p.2))
        | 97 :: r => (lexBody q fuel r).map (fun p => (7 :: p.1, p.2))
        | 98 :: r => (lexBody q fuel r).map (fun p => (8 :: p.1, p.2))
        | 102 :: r => (lexBody q fuel r).map (fun p => (12 :: p.1, p.2))
        | 110 :: r => (lexBody q fuel r).map (fun p => (10 :: p.1, p.2))
        | 114 :: r => (lexBody q fuel r).map (fun p => (13 :: p.1, p.2))
        | 116 :: r => (lexBody q fuel r).map (fun p => (9 :: p.1, p.2))
        | 118 :: r => (lexBody q fuel r).map (fun p => (11 :: p.1, p.2))
        | 120 :: a :: b :: r =>
            match hex2 a b with
            | some v => (lexBody q fuel r).map (fun p => (v :: p.1, p.2))
            | none => none
        | 117 :: a :: b :: c' :: d :: r =>
            match hex4 a b c' d with
            | some v => (lexBody q fuel r).map (fun p => (v :: p.1, p.2))
            | none => none
        | 85 :: a :: b :: c' :: d :: e :: f :: g :: h :: r =>
            match hex4 a b c' d, hex4 e f g h with
            | some hi, some lo =>
                if hi * 65536 + lo < 1114112 then (lexBody q fuel r).map (fun p => ((hi * 65536 + lo) :: p.1, p.2))
                else none
            | _, _ => none
        | 120 :: _ => none
        | 117 :: _ => none
        | 85 :: _ => none
        | 78 :: _ => none                           -- \N{name}: outside the model
        | o :: r =>
            if 48 ≤ o ∧ o ≤ 55 then none           -- octal escapes: outside the model
            else (lexBody q fuel r).map (fun p => (92 :: o :: p.1, p.2))   -- unknown escape: kept verbatim
      else (lexBody q fuel rest).map (fun p => (c :: p.1, p.2))

/-- lex one string literal at the head of the source text -/
def lexLit (src : List Nat) : Option (List Nat × List Nat) :=
  match src with
  | q :: rest =>
      if q = 39 ∨ q = 34 then
        -- three quote characters in a row open a triple-quoted literal: outside the model
        match rest with
        | a :: b :: _ => if a = q ∧ b = q then none else lexBody q (rest.length + 1) rest
        | _ => lexBody q (rest.length + 1) rest
      else none
  | [] => none

end Mashu.Quote
