/-
  Mashu.Discr — discriminated unions as a state machine over a history of events:
  classes are defined (possibly after the first decode), inputs tagged t are decoded.
  Source: unpack.py `DiscriminatedUnionUnpackerBuilder._add_body`, helpers.py
  `iter_all_subclasses`, builder.py:388-411 (class-level wiring).
-/
namespace Mashu.Discr

structure Cls where
  id : Nat
  parent : Option Nat          -- the base class (single inheritance among the modelled classes)
  tag : Option String          -- value of the discriminator attribute in the class's OWN namespace
  deriving Repr, DecidableEq, Inhabited

inductive Event
  | define (c : Cls)
  | decode (root : Nat) (tag : Option String)     -- `none`: the input has no discriminator key
  deriving Repr

inductive Outcome
  | inst (cls : Nat)
  | missingDiscriminator
  | noVariant
  deriving Repr, DecidableEq

structure State where
  classes : List Cls := []                          -- in definition order
  registry : List (Nat × String × Nat) := []        -- (root, tag) ↦ class: the variants map of each root
  deriving Repr

def findCls (cs : List Cls) (i : Nat) : Option Cls := cs.find? (fun c => c.id == i)

/-- is class `i` a strict descendant of `root`?  (walk the parent pointers) -/
def isDesc (cs : List Cls) (root : Nat) : Nat → Nat → Bool
  | 0, _ => false
  | fuel + 1, i =>
      match findCls cs i with
      | none => false
      | some c =>
          match c.parent with
          | none => false
          | some p => p == root || isDesc cs root fuel p

/-- `Discriminator(include_subtypes=…, include_supertypes=…)` -/
structure Mode where
  sub : Bool := true
  sup : Bool := false
  deriving Repr, DecidableEq

/-- position of a class in definition order -/
def posOf (cs : List Cls) (i : Nat) : Nat := (cs.findIdx? (fun c => c.id == i)).getD cs.length

/-- the chain of definition positions from the topmost ancestor down to class `i`: comparing these
    chains lexicographically is the depth-first preorder of `iter_all_subclasses` (a class before
    its subclasses, siblings in definition order = `__subclasses__()` order) -/
def pathKey (cs : List Cls) : Nat → Nat → List Nat
  | 0, _ => []
  | fuel + 1, i =>
      match findCls cs i with
      | none => []
      | some c =>
          (match c.parent with
           | none => []
           | some p => pathKey cs fuel p) ++ [posOf cs i]

def lexLe : List Nat → List Nat → Bool
  | [], _ => true
  | _ :: _, [] => false
  | a :: as, b :: bs => a < b || (a == b && lexLe as bs)

/-- insertion sort by a key order (structural recursion: evaluates inside `decide`) -/
def insertBy (le : Cls → Cls → Bool) (x : Cls) : List Cls → List Cls
  | [] => [x]
  | y :: ys => if le x y then x :: y :: ys else y :: insertBy le x ys

def isort (le : Cls → Cls → Bool) : List Cls → List Cls
  | [] => []
  | x :: xs => insertBy le x (isort le xs)

theorem mem_insertBy (le : Cls → Cls → Bool) (x a : Cls) : ∀ (l : List Cls), a ∈ insertBy le x l ↔ a = x ∨ a ∈ l
  | [] => by simp [insertBy]
  | y :: ys => by
      simp only [insertBy]
      split
      · simp
      · simp only [List.mem_cons, mem_insertBy le x a ys]
        constructor
        · rintro (h | h | h)
          · exact Or.inr (Or.inl h)
          · exact Or.inl h
          · exact Or.inr (Or.inr h)
        · rintro (h | h | h)
          · exact Or.inr (Or.inl h)
          · exact Or.inl h
          · exact Or.inr (Or.inr h)

theorem mem_isort (le : Cls → Cls → Bool) (a : Cls) : ∀ (l : List Cls), a ∈ isort le l ↔ a ∈ l
  | [] => by simp [isort]
  | x :: xs => by simp only [isort, mem_insertBy, mem_isort le a xs, List.mem_cons]

/-- the variants IN THE ORDER THE RESCAN VISITS THEM (`(*iter_all_subclasses(base), base)`): every
    (transitive) subclass with include_subtypes, depth first, then the root itself with
    include_supertypes -/
def eligible (cs : List Cls) (root : Nat) (m : Mode) : List Cls :=
  (isort (fun a b => lexLe (pathKey cs (cs.length + 1) a.id) (pathKey cs (cs.length + 1) b.id))
      (cs.filter (fun c => m.sub && isDesc cs root cs.length c.id)))
    ++ cs.filter (fun c => m.sup && c.id == root && !(m.sub && isDesc cs root cs.length c.id))

theorem mem_eligible (cs : List Cls) (root : Nat) (m : Mode) (x : Cls) :
    x ∈ eligible cs root m ↔ x ∈ cs ∧ ((m.sub && isDesc cs root cs.length x.id) || (m.sup && x.id == root)) = true := by
  simp only [eligible, List.mem_append, mem_isort, List.mem_filter]
  constructor
  · rintro (⟨h1, h2⟩ | ⟨h1, h2⟩)
    · exact ⟨h1, by simp [h2]⟩
    · refine ⟨h1, ?_⟩
      simp only [Bool.and_eq_true, Bool.not_eq_true'] at h2
      simp [h2.1.1, h2.1.2]
  · rintro ⟨h1, h2⟩
    by_cases hd : (m.sub && isDesc cs root cs.length x.id) = true
    · exact Or.inl ⟨h1, hd⟩
    · refine Or.inr ⟨h1, ?_⟩
      simp only [hd, Bool.false_or] at h2
      simp [h2, hd]

def lookup (reg : List (Nat × String × Nat)) (root : Nat) (t : String) : Option Nat :=
  (reg.find? (fun e => e.1 == root && e.2.1 == t)).map (·.2.2)

/-- the refill on a miss: every variant that defines the discriminator attribute itself is
    (re-)registered under its tag; later registrations shadow earlier ones -/
def refill (st : State) (root : Nat) (m : Mode) : List (Nat × String × Nat) :=
  ((eligible st.classes root m).filterMap (fun c => c.tag.map (fun t => (root, t, c.id)))).reverse ++ st.registry

def step (m : Mode) (st : State) : Event → State × Option Outcome
  | .define c => ({ st with classes := st.classes ++ [c] }, none)
  | .decode _ none => (st, some .missingDiscriminator)
  | .decode root (some t) =>
      match lookup st.registry root t with
      | some c => (st, some (.inst c))
      | none =>
          let reg := refill st root m
          match lookup reg root t with
          | some c => ({ st with registry := reg }, some (.inst c))
          | none => ({ st with registry := reg }, some .noVariant)

def run (m : Mode) : State → List Event → List Outcome
  | _, [] => []
  | st, e :: es =>
      let r := step m st e
      match r.2 with
      | some o => o :: run m r.1 es
      | none => run m r.1 es

/-- the statement: the eligible class tagged t among the classes defined so far -/
def spec (cs : List Cls) (root : Nat) (m : Mode) : Option String → Outcome
  | none => .missingDiscriminator
  | some t =>
      match (eligible cs root m).find? (fun c => c.tag == some t) with
      | some c => .inst c.id
      | none => .noVariant

def runSpec (m : Mode) : List Cls → List Event → List Outcome
  | _, [] => []
  | cs, .define c :: es => runSpec m (cs ++ [c]) es
  | cs, .decode root t :: es => spec cs root m t :: runSpec m cs es

/-! ### no-field mode: subclasses in depth-first definition order, then the supertype -/

def children (cs : List Cls) (p : Nat) : List Cls := cs.filter (fun c => c.parent == some p)

def dfs (cs : List Cls) : Nat → Nat → List Cls
  | 0, _ => []
  | fuel + 1, p => (children cs p).flatMap (fun c => c :: dfs cs fuel c.id)

/-- first variant (subclasses depth-first, then the root with include_supertypes) that accepts -/
def noField (cs : List Cls) (root : Nat) (m : Mode) (accepts : Nat → Bool) : Outcome :=
  let vs := (if m.sub then (dfs cs cs.length root).map (·.id) else []) ++ (if m.sup then [root] else [])
  match vs.find? accepts with
  | some c => .inst c
  | none => .noVariant

end Mashu.Discr
