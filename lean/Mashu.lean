import Mashu.Val
import Mashu.Ty
import Mashu.Pack
import Mashu.Unpack
import Mashu.Wire
import Mashu.Dispatch
import Mashu.Generated
