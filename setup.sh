#!/bin/sh
# Build everything the checks need from files on disk only (offline).
set -e
cd "$(dirname "$0")"
# 1. jsonschema (Draft 2020-12 validator used by C06/C20) for the /venv interpreter, into .pydeps
if [ ! -d .pydeps/jsonschema ]; then
  /venv/bin/python -m pip install --quiet --no-index --find-links /opt/veriftools/wheels \
      --target .pydeps jsonschema >/dev/null 2>&1 || echo "warning: jsonschema not installed" >&2
fi
# 2. tables regenerated from /repo's source, then the Lean development
/venv/bin/python -c "
import sys; sys.path.insert(0, '.')
from harness import core, extract
core.import_repo()
extract.write_generated(None)
"
cd lean && lake build
